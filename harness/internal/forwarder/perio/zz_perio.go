//go:build verif

package perio

import "time"

// ZZNewServer builds a server without starting its Serve goroutine (harness constructor).
func ZZNewServer() *Server {
	return &Server{
		evtCh:     make(chan Event, EVENT_CHANNEL_LEN),
		perioList: make(map[time.Duration]*PERIOGroup),
	}
}

// ZZEvent is a read-only view of a queued event for harnesses in other packages.
type ZZEvent struct {
	Type   uint8
	SEID   uint64
	URRID  uint32
	Period time.Duration
}

// ZZDrain removes and returns all queued events.
func (s *Server) ZZDrain() []ZZEvent {
	var out []ZZEvent
	for {
		select {
		case e := <-s.evtCh:
			out = append(out, ZZEvent{uint8(e.eType), e.lSeid, e.urrid, e.period})
		default:
			return out
		}
	}
}
