//go:build verif

package forwarder

import (
	"github.com/khirono/go-nl"

	"github.com/free5gc/go-gtp5gnl"
)

// Encoders for the simulated kernel's replies, built with go-nl's own attribute encoder.

type zzRep struct {
	urr   uint32
	seid  uint64
	trig  uint32
	vol   [6]uint64
	start uint64 // ns since the Unix epoch
	end   uint64
}

func zzEncAttrs(al nl.AttrList) []byte {
	b := make([]byte, al.Len())
	al.Encode(b)
	return b
}

func zzRepAttr(r zzRep) nl.Attr {
	return nl.Attr{Type: gtp5gnl.UR, Value: nl.AttrList{
		{Type: gtp5gnl.UR_URRID, Value: nl.AttrU32(r.urr)},
		{Type: gtp5gnl.UR_USAGE_REPORT_TRIGGER, Value: nl.AttrU32(r.trig)},
		{Type: gtp5gnl.UR_VOLUME_MEASUREMENT, Value: nl.AttrList{
			{Type: gtp5gnl.UR_VOLUME_MEASUREMENT_TOVOL, Value: nl.AttrU64(r.vol[0])},
			{Type: gtp5gnl.UR_VOLUME_MEASUREMENT_UVOL, Value: nl.AttrU64(r.vol[1])},
			{Type: gtp5gnl.UR_VOLUME_MEASUREMENT_DVOL, Value: nl.AttrU64(r.vol[2])},
			{Type: gtp5gnl.UR_VOLUME_MEASUREMENT_TOPACKET, Value: nl.AttrU64(r.vol[3])},
			{Type: gtp5gnl.UR_VOLUME_MEASUREMENT_UPACKET, Value: nl.AttrU64(r.vol[4])},
			{Type: gtp5gnl.UR_VOLUME_MEASUREMENT_DPACKET, Value: nl.AttrU64(r.vol[5])},
		}},
		{Type: gtp5gnl.UR_START_TIME, Value: nl.AttrU64(r.start)},
		{Type: gtp5gnl.UR_END_TIME, Value: nl.AttrU64(r.end)},
		{Type: gtp5gnl.UR_SEID, Value: nl.AttrU64(r.seid)},
	}}
}

// zzReportsMsg: one netlink message carrying the reports (genl header + attributes).
func zzReportsMsg(rs []zzRep) []nl.Msg {
	var al nl.AttrList
	for _, r := range rs {
		al = append(al, zzRepAttr(r))
	}
	body := append([]byte{0, 0, 0, 0}, zzEncAttrs(al)...)
	return []nl.Msg{{Header: nl.Header{Type: zzFamilyID, Pid: 1}, Body: body}}
}
