//go:build verif

package forwarder

import (
	"github.com/free5gc/go-gtp5gnl"
)

// C16: SDF flow descriptions are translated to the filter they denote.
// The rule string is assembled from a template: fixed keywords, symbolic decimal digits.

type zzNum struct {
	d []byte // ASCII digits, symbolic
}

func zzDigits(name string, n int) zzNum {
	d := nondetBytes(name, n)
	for i, c := range d {
		zzAssume(c >= '0')
		zzAssume(c <= '9')
		// same value under the assumption; tells the engine's simplifier that the high nibble is 3,
		// so that comparisons with blanks, separators and letters fold without a solver query
		d[i] = '0' | c&0x0f
	}
	return zzNum{d}
}

func (n zzNum) val() uint32 {
	v := uint32(0)
	for _, c := range n.d {
		v = v*10 + uint32(c-'0')
	}
	return v
}

func (n zzNum) str() string { return string(n.d) }

// leadingZero: more than one digit and the first is '0'
func (n zzNum) leadingZero() bool { return len(n.d) > 1 && n.d[0] == '0' }

type zzAddrT struct {
	kind   int      // 0 any, 1 assigned, 2 host, 3 prefix
	digits [4]int   // digit count per octet
	pfx    int      // digits of the prefix length
	oct    [4]zzNum // filled by build
	plen   zzNum
}

type zzPortT struct {
	lo, hi int // digit counts; hi == 0 -> single port
	a, b   zzNum
}

type zzTmpl struct {
	dir    int // 0 in, 1 out
	proto  int // 0 = "ip", else digit count
	src    zzAddrT
	sports []zzPortT
	dst    zzAddrT
	dports []zzPortT
	space  int // 0 single blanks, 1 double blanks / tabs, 2 leading+trailing blanks
}

func (a *zzAddrT) build(name string) string {
	switch a.kind {
	case 0:
		return "any"
	case 1:
		return "assigned"
	}
	s := ""
	for i := 0; i < 4; i++ {
		a.oct[i] = zzDigits(name+"-oct", a.digits[i])
		if i > 0 {
			s += "."
		}
		s += a.oct[i].str()
	}
	if a.kind == 3 {
		a.plen = zzDigits(name+"-plen", a.pfx)
		s += "/" + a.plen.str()
	}
	return s
}

func zzPorts(name string, ps []zzPortT) string {
	s := ""
	for i := range ps {
		if i > 0 {
			s += ","
		}
		ps[i].a = zzDigits(name+"-port", ps[i].lo)
		s += ps[i].a.str()
		if ps[i].hi > 0 {
			ps[i].b = zzDigits(name+"-port", ps[i].hi)
			s += "-" + ps[i].b.str()
		}
	}
	return s
}

// valid: the address denotes an IPv4 host / prefix in the grammar
func (a *zzAddrT) valid() bool {
	if a.kind < 2 {
		return true
	}
	for i := 0; i < 4; i++ {
		if a.oct[i].leadingZero() || a.oct[i].val() > 255 {
			return false
		}
	}
	if a.kind == 3 && a.plen.val() > 32 {
		return false
	}
	return true
}

func zzPortsValid(ps []zzPortT) bool {
	for i := range ps {
		if ps[i].a.val() > 65535 {
			return false
		}
		if ps[i].hi > 0 && ps[i].b.val() > 65535 {
			return false
		}
	}
	return true
}

// expected network and mask as 32-bit words
func (a *zzAddrT) want() (ip uint32, mask uint32, any bool) {
	if a.kind < 2 {
		return 0, 0, true
	}
	addr := a.oct[0].val()<<24 | a.oct[1].val()<<16 | a.oct[2].val()<<8 | a.oct[3].val()
	if a.kind == 2 {
		return addr, 0xffffffff, false
	}
	n := a.plen.val()
	if n == 0 {
		return 0, 0, false
	}
	mask = 0xffffffff << (32 - n)
	return addr & mask, mask, false
}

func zzWord(b []byte) uint32 { return zzBE32(b) }

func zzCheckNet(ip, mask []byte, a *zzAddrT, label string) {
	wip, wmask, any := a.want()
	if any {
		// any / assigned: the all-zero 128-bit network (as the driver has always encoded it)
		zzAssert(label+".any-len", len(ip) == 4 && len(mask) == 4)
		// DecodeFlowDesc keeps the first four octets of the 16-octet zero address / mask
		zzAssert(label+".any-zero", zzWord(ip) == 0 && zzWord(mask) == 0)
		return
	}
	zzAssert(label+".len", len(ip) == 4 && len(mask) == 4)
	if len(ip) == 4 && len(mask) == 4 {
		zzAssert(label+".network", zzWord(ip) == wip)
		zzAssert(label+".mask", zzWord(mask) == wmask)
	}
}

func zzCheckPorts(got [][]uint16, ps []zzPortT, label string) {
	zzAssert(label+".count", len(got) == len(ps))
	if len(got) != len(ps) {
		return
	}
	for i := range ps {
		lo := uint16(ps[i].a.val())
		hi := lo
		if ps[i].hi > 0 {
			hi = uint16(ps[i].b.val())
		}
		g := got[i]
		zzAssert(label+".item-shape", len(g) == 1 || len(g) == 2)
		if len(g) == 0 {
			continue
		}
		zzAssert(label+".lo", g[0] == lo)
		zzAssert(label+".hi", g[len(g)-1] == hi)
	}
}

func zzSep(space int) string {
	if space == 1 {
		return "  \t"
	}
	return " "
}

// zzTmplTokens builds the tokens of the rule the template denotes (digits symbolic); opt marks the
// tokens the grammar allows to be absent (the two port lists).
func zzTmplTokens(t *zzTmpl) (toks []string, opt []bool, proto zzNum) {
	add := func(s string, o bool) {
		toks = append(toks, s)
		opt = append(opt, o)
	}
	add("permit", false)
	if t.dir == 0 {
		add("in", false)
	} else {
		add("out", false)
	}
	if t.proto == 0 {
		add("ip", false)
	} else {
		proto = zzDigits("proto", t.proto)
		add(proto.str(), false)
	}
	add("from", false)
	add(t.src.build("src"), false)
	if len(t.sports) > 0 {
		add(zzPorts("src", t.sports), true)
	}
	add("to", false)
	add(t.dst.build("dst"), false)
	if len(t.dports) > 0 {
		add(zzPorts("dst", t.dports), true)
	}
	return
}

func zzJoin(toks []string, sep string) string {
	s := ""
	for i, x := range toks {
		if i > 0 {
			s += sep
		}
		s += x
	}
	return s
}

func zzRunTmpl(t *zzTmpl, uplink bool) {
	toks, _, proto := zzTmplTokens(t)
	s := zzJoin(toks, zzSep(t.space))
	if t.space == 2 {
		s = "  " + s + " \t"
	}
	zzObserve("rule", s)
	g := zzGtp5g(7)
	attrs, err := g.newFlowDesc(s, uplink)
	// does the string denote a filter of the grammar?
	valid := t.src.valid() && t.dst.valid()
	if t.proto > 0 && proto.val() > 255 {
		valid = false
	}
	if !valid {
		zzAssert("C16.invalid-field.rejected", err != nil)
		zzCover("C16.rejected")
		return
	}
	// out-of-range ports: ParseFlowDesc treats an unparsable port list as "no list"; for the source
	// side the next token must then be "to", so the rule is rejected; for the destination side the
	// list is ignored. Neither is a fault; the translation claim is about rules of the grammar.
	if !zzPortsValid(t.sports) || !zzPortsValid(t.dports) {
		zzCover("C16.port-out-of-range")
		return
	}
	zzAssert("C16.valid.accepted", err == nil)
	if err != nil {
		return
	}
	b := make([]byte, attrs.Len())
	attrs.Encode(b)
	zzObserve("attrs", b)
	zzWalk("PDR", "5/3/1/", b, "fd")
	zzCheckFlowDesc(t, proto, b, uplink)
	zzCover("C16.translated")
}

// zzCheckFlowDesc: the encoded FLOW_DESCRIPTION attributes b denote the rule of template t, source
// and destination exchanged for an uplink PDR.
func zzCheckFlowDesc(t *zzTmpl, proto zzNum, b []byte, uplink bool) {
	fd, derr := gtp5gnl.DecodeFlowDesc(b)
	zzAssert("C16.decodes", derr == nil)
	if derr != nil {
		return
	}
	zzAssert("C16.action", fd.Action == gtp5gnl.SDF_FILTER_PERMIT)
	if t.dir == 0 {
		zzAssert("C16.direction", fd.Dir == gtp5gnl.SDF_FILTER_IN)
	} else {
		zzAssert("C16.direction", fd.Dir == gtp5gnl.SDF_FILTER_OUT)
	}
	if t.proto == 0 {
		zzAssert("C16.protocol", fd.Proto == 0xff)
	} else {
		zzAssert("C16.protocol", uint32(fd.Proto) == proto.val())
	}
	src, dst := &t.src, &t.dst
	sp, dp := t.sports, t.dports
	if uplink {
		src, dst = dst, src
		sp, dp = dp, sp
	}
	zzCheckNet(fd.Src.IP, fd.Src.Mask, src, "C16.src")
	zzCheckNet(fd.Dst.IP, fd.Dst.Mask, dst, "C16.dst")
	zzCheckPorts(fd.SrcPorts, sp, "C16.sports")
	zzCheckPorts(fd.DstPorts, dp, "C16.dports")
}

func zzHost(a, b, c, d int) zzAddrT { return zzAddrT{kind: 2, digits: [4]int{a, b, c, d}} }
func zzPfx(a, b, c, d, p int) zzAddrT {
	return zzAddrT{kind: 3, digits: [4]int{a, b, c, d}, pfx: p}
}

// zzTemplates: a base template with the digit count of one field varied at a time.
func zzTemplates() []zzTmpl {
	anyA := zzAddrT{kind: 0}
	asg := zzAddrT{kind: 1}
	ts := []zzTmpl{
		// keywords only
		{dir: 1, proto: 0, src: anyA, dst: asg},
		{dir: 0, proto: 0, src: asg, dst: anyA},
		// protocol digit counts
		{dir: 1, proto: 1, src: anyA, dst: asg},
		{dir: 1, proto: 2, src: anyA, dst: asg},
		{dir: 1, proto: 3, src: anyA, dst: asg},
		// hosts
		{dir: 1, proto: 0, src: zzHost(1, 1, 1, 1), dst: asg},
		{dir: 1, proto: 0, src: zzHost(3, 1, 1, 1), dst: asg},
		{dir: 1, proto: 0, src: zzHost(1, 2, 1, 1), dst: asg},
		{dir: 1, proto: 0, src: zzHost(1, 1, 3, 1), dst: asg},
		{dir: 1, proto: 0, src: zzHost(2, 2, 2, 3), dst: asg},
		{dir: 0, proto: 0, src: anyA, dst: zzHost(3, 3, 1, 2)},
		// prefixes
		{dir: 1, proto: 0, src: zzPfx(2, 1, 1, 1, 1), dst: asg},
		{dir: 1, proto: 0, src: zzPfx(2, 1, 1, 1, 2), dst: asg},
		{dir: 1, proto: 0, src: zzPfx(3, 3, 1, 1, 2), dst: asg},
		{dir: 0, proto: 0, src: anyA, dst: zzPfx(3, 2, 1, 1, 2)},
		// ports
		{dir: 1, proto: 2, src: anyA, sports: []zzPortT{{lo: 1}}, dst: asg},
		{dir: 1, proto: 2, src: anyA, sports: []zzPortT{{lo: 5}}, dst: asg},
		{dir: 1, proto: 2, src: anyA, sports: []zzPortT{{lo: 2, hi: 4}}, dst: asg},
		{dir: 1, proto: 2, src: anyA, sports: []zzPortT{{lo: 2}, {lo: 3, hi: 5}}, dst: asg},
		{dir: 1, proto: 2, src: anyA, dst: asg, dports: []zzPortT{{lo: 4}}},
		{dir: 1, proto: 2, src: anyA, dst: asg, dports: []zzPortT{{lo: 1, hi: 5}, {lo: 2}}},
		{dir: 1, proto: 2, src: zzHost(2, 1, 1, 1), sports: []zzPortT{{lo: 2}}, dst: zzPfx(3, 1, 1, 1, 2), dports: []zzPortT{{lo: 4, hi: 4}}},
		// spacing
		{dir: 1, proto: 2, src: zzHost(2, 1, 1, 1), sports: []zzPortT{{lo: 2}}, dst: asg, space: 1},
		{dir: 0, proto: 0, src: anyA, dst: zzPfx(2, 1, 1, 1, 2), dports: []zzPortT{{lo: 3}}, space: 2},
	}
	return ts
}

func zzTemplatesThorough() []zzTmpl {
	ts := zzTemplates()
	anyA := zzAddrT{kind: 0}
	asg := zzAddrT{kind: 1}
	// all pairs of digit counts for the first two octets and the prefix length
	for a := 1; a <= 3; a++ {
		for b := 1; b <= 3; b++ {
			for p := 1; p <= 2; p++ {
				ts = append(ts, zzTmpl{dir: 1, proto: 0, src: zzPfx(a, b, 1, 2, p), dst: asg})
				ts = append(ts, zzTmpl{dir: 0, proto: 1, src: anyA, dst: zzPfx(1, 1, a, b, p)})
			}
		}
	}
	// eight-item port list with fixed digit counts
	ts = append(ts, zzTmpl{dir: 1, proto: 2, src: anyA,
		sports: []zzPortT{{lo: 1}, {lo: 2}, {lo: 3}, {lo: 4}, {lo: 5}, {lo: 1, hi: 2}, {lo: 3, hi: 4}, {lo: 5, hi: 5}}, dst: asg})
	ts = append(ts, zzTmpl{dir: 1, proto: 2, src: anyA, dst: asg,
		dports: []zzPortT{{lo: 5, hi: 5}, {lo: 4}, {lo: 3}, {lo: 2}, {lo: 1}, {lo: 2, hi: 3}, {lo: 4, hi: 5}, {lo: 5}}})
	return ts
}

func ZZ_C16_Templates() {
	var ts []zzTmpl
	if zzTier() == 1 {
		ts = zzTemplatesThorough()
	} else {
		ts = zzTemplates()
	}
	t := ts[nondetChoice("template", len(ts))]
	uplink := nondetChoice("uplink", 2) == 1
	zzRunTmpl(&t, uplink)
}

// ---- rejection side ----

// near misses: one keyword position replaced by up to 4 symbolic bytes that differ from the keyword
func ZZ_C16_NearMiss() {
	pos := nondetChoice("position", 4)
	n := 1 + nondetChoice("len", 4)
	w := nondetBytes("word", n)
	for _, c := range w {
		// not a separator (a separator would change the token structure), printable ASCII
		zzAssume(c > ' ')
		zzAssume(c < 0x7f)
	}
	word := string(w)
	kw := []string{"permit", "out", "from", "to"}[pos]
	zzAssume(word != kw)
	if pos == 1 {
		zzAssume(word != "in")
	}
	parts := []string{"permit", "out", "17", "from", "10.0.0.1", "to", "assigned"}
	idx := []int{0, 1, 3, 5}[pos]
	parts[idx] = word
	s := ""
	for i, p := range parts {
		if i > 0 {
			s += " "
		}
		s += p
	}
	zzObserve("rule", s)
	fd, err := ParseFlowDesc(s)
	zzAssert("C16.nearmiss.rejected", err != nil && fd == nil)
	zzCover("C16.nearmiss.done")
}

// arbitrary short byte strings: no fault
func ZZ_C16_Bytes() {
	max := 6 + 2*zzTier()
	n := nondetChoice("len", max+1)
	b := nondetBytes("b", n)
	for _, c := range b {
		zzAssume(c < 0x80) // ASCII (bytes >= 0x80 take the unicode path of strings.Fields: outside the bound)
	}
	s := string(b)
	zzObserve("rule", s)
	fd, err := ParseFlowDesc(s)
	zzAssert("C16.bytes.error-xor-result", (err == nil) == (fd != nil))
	zzCover("C16.bytes.done")
}
