// Package smt drives an SMT solver process (z3 -in style) incrementally.
package smt

import (
	"bufio"
	"fmt"
	"io"
	"os/exec"
	"strconv"
	"strings"
	"time"

	"gosymx/term"
)

type Result int

const (
	Unsat Result = iota
	Sat
	Unknown
)

func (r Result) String() string { return [...]string{"unsat", "sat", "unknown"}[r] }

type Stats struct {
	Queries  int
	Sat      int
	Unsat    int
	Unknown  int
	Errors   int
	SolverNS int64
}

type Solver struct {
	cmd     *exec.Cmd
	in      io.WriteCloser
	out     *bufio.Reader
	pr      *term.Printer
	Stats   Stats
	timeout int // ms
	Log     io.Writer
	argv    []string
	dead    bool
	inPath  bool
	paths   int
}

// New starts a solver. argv e.g. {"z3","-in"}.
func New(argv []string, timeoutMS int) (*Solver, error) {
	s := &Solver{argv: argv, timeout: timeoutMS, pr: term.NewPrinter()}
	if err := s.start(); err != nil {
		return nil, err
	}
	return s, nil
}

func (s *Solver) start() error {
	s.cmd = exec.Command(s.argv[0], s.argv[1:]...)
	in, err := s.cmd.StdinPipe()
	if err != nil {
		return err
	}
	out, err := s.cmd.StdoutPipe()
	if err != nil {
		return err
	}
	s.cmd.Stderr = nil
	if err := s.cmd.Start(); err != nil {
		return err
	}
	s.in = in
	s.out = bufio.NewReaderSize(out, 1<<16)
	s.dead = false
	s.pr.Reset()
	s.preamble()
	return nil
}

func (s *Solver) preamble() {
	s.send("(set-option :print-success false)\n")
	if strings.Contains(s.argv[0], "z3") {
		s.send(fmt.Sprintf("(set-option :timeout %d)\n", s.timeout))
	} else {
		// cvc5: models must be enabled before the logic is set; per-query limit in ms
		s.send("(set-option :produce-models true)\n")
		s.send(fmt.Sprintf("(set-option :tlimit-per %d)\n", s.timeout))
		s.send("(set-logic QF_BV)\n")
	}
}

func (s *Solver) send(t string) {
	if s.Log != nil {
		io.WriteString(s.Log, t)
	}
	if _, err := io.WriteString(s.in, t); err != nil {
		s.dead = true
	}
}

func (s *Solver) Close() {
	if s.cmd != nil && s.cmd.Process != nil {
		s.in.Close()
		s.cmd.Process.Kill()
		s.cmd.Wait()
	}
}

// Reset clears all assertions and definitions (scoped push/pop; a full
// solver reset every 256 paths keeps the solver's memory bounded).
func (s *Solver) Reset() {
	if s.dead {
		s.Close()
		s.start()
		s.inPath = false
	}
	s.paths++
	if s.inPath {
		s.send("(pop 1)\n")
		s.inPath = false
	}
	if s.paths%256 == 0 {
		s.send("(reset)\n")
		s.preamble()
	}
	s.pr.Reset()
	s.send("(push 1)\n")
	s.inPath = true
}

func (s *Solver) Push() {
	s.send("(push 1)\n")
	s.pr.Push()
}

func (s *Solver) Pop() {
	s.send("(pop 1)\n")
	s.pr.Pop()
}

func (s *Solver) Assert(t *term.Term) {
	var sb strings.Builder
	ref := s.pr.Ref(t, &sb)
	fmt.Fprintf(&sb, "(assert %s)\n", ref)
	s.send(sb.String())
}

// Define makes sure t's definitions are emitted at the current level.
func (s *Solver) Define(t *term.Term) {
	var sb strings.Builder
	s.pr.Ref(t, &sb)
	if sb.Len() > 0 {
		s.send(sb.String())
	}
}

func (s *Solver) readLine() (string, error) {
	line, err := s.out.ReadString('\n')
	return strings.TrimSpace(line), err
}

func (s *Solver) Check() Result {
	s.Stats.Queries++
	t0 := time.Now()
	s.send("(check-sat)\n")
	res := Unknown
	for {
		line, err := s.readLine()
		if err != nil {
			s.dead = true
			s.Stats.Errors++
			break
		}
		if line == "" {
			continue
		}
		if strings.HasPrefix(line, "(error") {
			s.Stats.Errors++
			if s.Log != nil {
				fmt.Fprintf(s.Log, "; SOLVER: %s\n", line)
			}
			// an error line may precede the verdict; result is inconclusive
			res = Unknown
			// try to read the verdict that follows, if any
			continue
		}
		switch line {
		case "sat":
			if s.Stats.Errors == 0 || res != Unknown {
				res = Sat
			} else {
				res = Sat
			}
		case "unsat":
			res = Unsat
		case "unknown", "timeout":
			res = Unknown
		default:
			continue
		}
		break
	}
	s.Stats.SolverNS += time.Since(t0).Nanoseconds()
	switch res {
	case Sat:
		s.Stats.Sat++
	case Unsat:
		s.Stats.Unsat++
	default:
		s.Stats.Unknown++
	}
	return res
}

// CheckWith asks whether the current assertions plus extra are satisfiable.
func (s *Solver) CheckWith(extra *term.Term) Result {
	if extra.IsConst() {
		if extra.Val == 0 {
			return Unsat
		}
		return s.Check()
	}
	s.Define(extra)
	s.Push()
	s.Assert(extra)
	r := s.Check()
	s.Pop()
	return r
}

// Model returns values for the given variables; call right after a Sat Check
// (before Pop).
func (s *Solver) Model(vars []*term.Term) (map[string]uint64, error) {
	m := make(map[string]uint64)
	if len(vars) == 0 {
		return m, nil
	}
	var sb strings.Builder
	sb.WriteString("(get-value (")
	asked := 0
	for _, v := range vars {
		// variables never sent to the solver are unconstrained: any value will do
		if !s.pr.Has(v) {
			m[v.Name] = 0
			continue
		}
		sb.WriteString(v.Name)
		sb.WriteByte(' ')
		asked++
	}
	if asked == 0 {
		return m, nil
	}
	sb.WriteString("))\n")
	s.send(sb.String())
	// read balanced s-expression
	depth := 0
	var buf strings.Builder
	started := false
	for {
		r, _, err := s.out.ReadRune()
		if err != nil {
			s.dead = true
			return m, err
		}
		if r == '(' {
			depth++
			started = true
		}
		if started {
			buf.WriteRune(r)
		}
		if r == ')' {
			depth--
			if started && depth == 0 {
				break
			}
		}
	}
	txt := buf.String()
	if strings.HasPrefix(txt, "(error") {
		return m, fmt.Errorf("solver: %s", txt)
	}
	// parse pairs "(name value)"
	toks := tokenize(txt)
	for i := 0; i+3 < len(toks); i++ {
		if toks[i] == "(" && toks[i+3] == ")" && toks[i+1] != "(" {
			name, val := toks[i+1], toks[i+2]
			v, ok := parseVal(val)
			if ok {
				m[name] = v
			}
		}
	}
	return m, nil
}

func tokenize(s string) []string {
	var out []string
	cur := ""
	flush := func() {
		if cur != "" {
			out = append(out, cur)
			cur = ""
		}
	}
	for _, r := range s {
		switch r {
		case '(', ')':
			flush()
			out = append(out, string(r))
		case ' ', '\n', '\t', '\r':
			flush()
		default:
			cur += string(r)
		}
	}
	flush()
	return out
}

func parseVal(v string) (uint64, bool) {
	switch {
	case v == "true":
		return 1, true
	case v == "false":
		return 0, true
	case strings.HasPrefix(v, "#x"):
		x, err := strconv.ParseUint(v[2:], 16, 64)
		return x, err == nil
	case strings.HasPrefix(v, "#b"):
		x, err := strconv.ParseUint(v[2:], 2, 64)
		return x, err == nil
	}
	return 0, false
}
