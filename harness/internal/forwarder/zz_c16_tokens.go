//go:build verif

package forwarder

import (
	"github.com/free5gc/go-gtp5gnl"
	"github.com/wmnsk/go-pfcp/ie"
)

// Token-level damage to a rule of the grammar: the text a peer sends may stop anywhere or lack any
// one word. The parser must come back - with an error unless the words that are left still form a
// rule (only the two port lists may be absent) - and must never fault: the translation runs on the
// PFCP event loop, where a fault ends the process (C07).

// zzDamaged returns the damaged rule text and whether what is left is still a rule of the grammar
// as far as its word structure goes.
func zzDamaged(t *zzTmpl) (string, bool) {
	toks, opt, _ := zzTmplTokens(t)
	n := len(toks)
	still := false
	switch nondetChoice("damage", 3) {
	case 0:
		// the text stops after k words
		k := nondetChoice("words-kept", n)
		still = k == n-1 && opt[n-1]
		toks = toks[:k]
		zzCover("C16.tokens.cut")
	case 1:
		i := nondetChoice("word-missing", n)
		still = opt[i]
		var rest []string
		for j, x := range toks {
			if j != i {
				rest = append(rest, x)
			}
		}
		toks = rest
		zzCover("C16.tokens.missing")
	case 2:
		// two neighbouring words exchanged: the grammar is positional, no exchange yields a rule
		i := nondetChoice("words-exchanged", n-1)
		toks[i], toks[i+1] = toks[i+1], toks[i]
		zzCover("C16.tokens.exchanged")
	}
	return zzJoin(toks, " "), still
}

// templates with every kind of word in them
func zzTokenTemplates() []zzTmpl {
	anyA := zzAddrT{kind: 0}
	asg := zzAddrT{kind: 1}
	return []zzTmpl{
		{dir: 1, proto: 0, src: anyA, dst: asg},
		{dir: 0, proto: 2, src: zzHost(2, 1, 1, 1), dst: anyA},
		{dir: 1, proto: 0, src: zzHost(2, 2, 2, 2), sports: []zzPortT{{lo: 3}}, dst: asg},
		{dir: 1, proto: 2, src: anyA, dst: zzPfx(2, 1, 1, 1, 2), dports: []zzPortT{{lo: 2, hi: 4}}},
		{dir: 1, proto: 2, src: zzHost(2, 1, 1, 1), sports: []zzPortT{{lo: 2}, {lo: 2, hi: 3}}, dst: zzPfx(3, 1, 1, 1, 2), dports: []zzPortT{{lo: 4}}},
	}
}

func ZZ_C16_Tokens() {
	ts := zzTokenTemplates()
	t := ts[nondetChoice("template", len(ts))]
	s, still := zzDamaged(&t)
	zzObserve("rule", s)
	fd, err := ParseFlowDesc(s)
	zzAssert("C16.tokens.error-xor-result", (err == nil) == (fd != nil))
	if !still {
		zzAssert("C16.tokens.incomplete-rule-rejected", err != nil)
	}
	zzCover("C16.tokens.done")
}

// The same damaged text as it reaches the driver: in the SDF Filter of a Create PDR, on the
// simulated kernel. Whatever the driver makes of it, the call returns.
func ZZ_C07_FlowDescTokens() {
	ts := zzTokenTemplates()
	t := ts[nondetChoice("template", len(ts))]
	s, _ := zzDamaged(&t)
	zzObserve("rule", s)
	k := zzInstallKernel()
	g := zzGtp5g(7)
	p := []byte{0x01, 0, byte(len(s) >> 8), byte(len(s))}
	p = append(p, []byte(s)...)
	srcIf := byte(nondetChoice("srcif", 2)) // access / core
	req := ie.NewCreatePDR(ie.NewPDRID(1), ie.NewPrecedence(1),
		ie.NewPDI(ie.NewSourceInterface(srcIf), ie.New(ie.SDFFilter, p)), ie.NewFARID(1))
	_ = g.CreatePDR(5, req)
	zzAssert("C07.flowdesc.at-most-one-request", len(k.reqs) <= 1)
	zzCover("C07.flowdesc.done")
}

// The direction a rule is translated for is the PDR's: source and destination are exchanged when -
// and only when - the PDI's Source Interface is Access, wherever in the PDI the SDF Filter IE
// stands relative to the Source Interface IE (IEs of a grouped IE come in no particular order).
func ZZ_C16_ViaPDI() {
	ts := zzTokenTemplates()
	t := ts[2+nondetChoice("template", 3)] // the three with different source and destination sides
	toks, _, proto := zzTmplTokens(&t)
	s := zzJoin(toks, " ")
	zzObserve("rule", s)
	p := []byte{0x01, 0, byte(len(s) >> 8), byte(len(s))}
	p = append(p, []byte(s)...)
	srcIf := byte(nondetChoice("srcif", 2)) // 0 access, 1 core
	var pdi *ie.IE
	if nondetBool("sdf-filter-first") {
		pdi = ie.NewPDI(ie.New(ie.SDFFilter, p), ie.NewSourceInterface(srcIf))
	} else {
		pdi = ie.NewPDI(ie.NewSourceInterface(srcIf), ie.New(ie.SDFFilter, p))
	}
	g := zzGtp5g(7)
	attrs, err := g.newPdi(pdi)
	zzAssert("C16.pdi.accepted", err == nil)
	if err != nil {
		return
	}
	b := make([]byte, attrs.Len())
	attrs.Encode(b)
	f, ok := zzFindAttr(b, gtp5gnl.PDI_SDF_FILTER, 0)
	valid := t.src.valid() && t.dst.valid() && !(t.proto > 0 && proto.val() > 255)
	if !valid || !zzPortsValid(t.sports) || !zzPortsValid(t.dports) {
		zzCover("C16.pdi.not-a-rule")
		return
	}
	zzAssert("C16.pdi.filter-present", ok)
	if !ok {
		return
	}
	d, okd := zzFindAttr(f, gtp5gnl.SDF_FILTER_FLOW_DESCRIPTION, 0)
	zzAssert("C16.pdi.flow-description-present", okd)
	if !okd {
		return
	}
	zzCheckFlowDesc(&t, proto, d, srcIf == ie.SrcInterfaceAccess)
	zzCover("C16.pdi.done")
}

// The translation of a rule does not depend on what was translated before: the same rule text for
// an uplink and for a downlink PDR (in either order, or twice for the same direction), and another
// rule in between - each result denotes its own rule for its own direction.
func ZZ_C16_Twice() {
	ts := zzTokenTemplates()
	t := ts[2+nondetChoice("template", 3)]
	toks, _, proto := zzTmplTokens(&t)
	s := zzJoin(toks, " ")
	zzObserve("rule", s)
	valid := t.src.valid() && t.dst.valid() && !(t.proto > 0 && proto.val() > 255)
	if !valid || !zzPortsValid(t.sports) || !zzPortsValid(t.dports) {
		zzCover("C16.twice.not-a-rule")
		return
	}
	g := zzGtp5g(7)
	n := 2 + nondetChoice("translations", 2)
	for i := 0; i < n; i++ {
		uplink := nondetBool("uplink")
		if i == 1 && nondetBool("another-rule-in-between") {
			_, _ = g.newFlowDesc("permit out 6 from 192.0.2.1 443 to assigned", true)
		}
		attrs, err := g.newFlowDesc(s, uplink)
		zzAssert("C16.twice.accepted", err == nil)
		if err != nil {
			return
		}
		b := make([]byte, attrs.Len())
		attrs.Encode(b)
		zzCheckFlowDesc(&t, proto, b, uplink)
	}
	zzCover("C16.twice.done")
}
