//go:build verif

package forwarder

import (
	"io"
	"runtime"
	"time"

	"github.com/khirono/go-nl"

	"github.com/free5gc/go-upf/internal/forwarder/perio"
	"github.com/free5gc/go-upf/internal/logger"
)

func init() {
	logger.Log.SetOutput(io.Discard)
	zzResetHook = func() {
		zzPS = nil
		zzK = nil
		nl.DoHook = nil
	}
}

func zzYield() { runtime.Gosched(); time.Sleep(3 * time.Millisecond) }

func zzPerio() *perio.Server {
	if zzPS == nil {
		zzPS = perio.ZZNewServer()
	}
	return zzPS
}
