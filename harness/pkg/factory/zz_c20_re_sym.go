//go:build verif

package factory

// A small backtracking regular-expression matcher for the engine's model of govalidator's
// `matches(...)` validator (regexp.MatchString: unanchored search). Supported syntax: literals,
// escapes (\. \d \w \s and escaped punctuation), '.', character classes with ranges and negation,
// groups, alternation, the anchors ^ and $, and the quantifiers * + ?. tools/gen_c20.py refuses
// patterns with anything else ({m,n}, look-around, flags, named classes). Every verdict is checked
// against Go's regexp through the native replay of the same document.

type zzReNode struct {
	kind     int // 0 char, 1 any, 2 class, 3 group (alternatives), 4 bol, 5 eol
	c        byte
	set      [256]bool
	alts     [][]*zzReNode
	min, max int // repetition, max < 0 = unbounded
}

type zzReParser struct {
	p   string
	i   int
	bad bool
}

func (z *zzReParser) alternatives() [][]*zzReNode {
	alts := [][]*zzReNode{nil}
	for z.i < len(z.p) && z.p[z.i] != ')' {
		if z.p[z.i] == '|' {
			z.i++
			alts = append(alts, nil)
			continue
		}
		n := z.atom()
		if n == nil {
			z.bad = true
			return alts
		}
		n.min, n.max = 1, 1
		if z.i < len(z.p) {
			switch z.p[z.i] {
			case '*':
				n.min, n.max = 0, -1
				z.i++
			case '+':
				n.min, n.max = 1, -1
				z.i++
			case '?':
				n.min, n.max = 0, 1
				z.i++
			}
		}
		alts[len(alts)-1] = append(alts[len(alts)-1], n)
	}
	return alts
}

func zzReClassOf(e byte, set *[256]bool) bool {
	switch e {
	case 'd':
		for c := '0'; c <= '9'; c++ {
			set[c] = true
		}
	case 'w':
		for c := 0; c < 256; c++ {
			if c >= '0' && c <= '9' || c >= 'a' && c <= 'z' || c >= 'A' && c <= 'Z' || c == '_' {
				set[c] = true
			}
		}
	case 's':
		set[' '], set['\t'], set['\n'], set['\r'], set['\f'] = true, true, true, true, true
	default:
		return false
	}
	return true
}

func (z *zzReParser) atom() *zzReNode {
	c := z.p[z.i]
	switch c {
	case '(':
		z.i++
		n := &zzReNode{kind: 3, alts: z.alternatives()}
		if z.i >= len(z.p) || z.p[z.i] != ')' {
			return nil
		}
		z.i++
		return n
	case '[':
		z.i++
		n := &zzReNode{kind: 2}
		neg := false
		if z.i < len(z.p) && z.p[z.i] == '^' {
			neg = true
			z.i++
		}
		first := true
		for z.i < len(z.p) && (z.p[z.i] != ']' || first) {
			first = false
			lo := z.p[z.i]
			if lo == '\\' && z.i+1 < len(z.p) {
				z.i++
				if zzReClassOf(z.p[z.i], &n.set) {
					z.i++
					continue
				}
				lo = z.p[z.i]
			}
			hi := lo
			if z.i+2 < len(z.p) && z.p[z.i+1] == '-' && z.p[z.i+2] != ']' {
				hi = z.p[z.i+2]
				z.i += 2
			}
			for x := int(lo); x <= int(hi); x++ {
				n.set[x] = true
			}
			z.i++
		}
		if z.i >= len(z.p) {
			return nil
		}
		z.i++
		if neg {
			for x := range n.set {
				n.set[x] = !n.set[x]
			}
		}
		return n
	case '.':
		z.i++
		return &zzReNode{kind: 1}
	case '^':
		z.i++
		return &zzReNode{kind: 4}
	case '$':
		z.i++
		return &zzReNode{kind: 5}
	case '\\':
		if z.i+1 >= len(z.p) {
			return nil
		}
		z.i += 2
		n := &zzReNode{kind: 2}
		if zzReClassOf(z.p[z.i-1], &n.set) {
			return n
		}
		return &zzReNode{kind: 0, c: z.p[z.i-1]}
	case '*', '+', '?', ')', '{':
		return nil
	}
	z.i++
	return &zzReNode{kind: 0, c: c}
}

// match the sequence seq[k:] at position i of s, then the continuation
func zzReSeq(seq []*zzReNode, k int, s string, i int, cont func(int) bool) bool {
	if k == len(seq) {
		return cont(i)
	}
	n := seq[k]
	var rep func(count, pos int) bool
	rep = func(count, pos int) bool {
		// greedy: try one more repetition first
		if n.max < 0 || count < n.max {
			if zzReOne(n, s, pos, func(next int) bool {
				if next == pos && count >= n.min {
					return false // empty repetition: no progress
				}
				return rep(count+1, next)
			}) {
				return true
			}
		}
		if count >= n.min {
			return zzReSeq(seq, k+1, s, pos, cont)
		}
		return false
	}
	return rep(0, i)
}

func zzReOne(n *zzReNode, s string, i int, cont func(int) bool) bool {
	switch n.kind {
	case 0:
		return i < len(s) && s[i] == n.c && cont(i+1)
	case 1:
		return i < len(s) && s[i] != '\n' && cont(i+1)
	case 2:
		return i < len(s) && n.set[s[i]] && cont(i+1)
	case 3:
		for _, a := range n.alts {
			if zzReSeq(a, 0, s, i, cont) {
				return true
			}
		}
		return false
	case 4:
		return i == 0 && cont(i)
	case 5:
		return i == len(s) && cont(i)
	}
	return false
}

// zzMatches: regexp.MatchString(pattern, s) for the supported syntax.
func zzMatches(s, pattern string) bool {
	z := &zzReParser{p: pattern}
	alts := z.alternatives()
	zzAssert("C20.document.model.regex-supported", !z.bad && z.i == len(pattern))
	top := &zzReNode{kind: 3, alts: alts, min: 1, max: 1}
	for i := 0; i <= len(s); i++ {
		if zzReOne(top, s, i, func(int) bool { return true }) {
			return true
		}
	}
	return false
}
