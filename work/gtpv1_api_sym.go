//go:build verif

package gtpv1

// Harness API, engine side: body-less declarations intercepted by gosymx.

func nondetU8(name string) uint8
func nondetU16(name string) uint16
func nondetU32(name string) uint32
func nondetU64(name string) uint64
func nondetBool(name string) bool
func nondetBytes(name string, n int) []byte
func nondetChoice(name string, n int) int
func zzAssume(c bool)
func zzAssert(label string, c bool)
func zzCover(label string)
func zzObserve(label string, v any)
func zzYield()
func zzExpectExit()
func zzSentCount() int
func zzSentBytes(i int) []byte
func zzTimersActive() int
func zzTimersCreated() int
func zzSetNow(unix int64)
func zzGoroutines() int
