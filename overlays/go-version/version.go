package version

import (
	"bytes"
	"fmt"
	"reflect"
	"regexp"
	"strconv"
	"strings"
)

// The compiled regular expression used to test the validity of a version.
var (
	versionRegexp *regexp.Regexp
	semverRegexp  *regexp.Regexp
)

// The raw regular expression string used for testing the validity
// of a version.
const (
	VersionRegexpRaw string = `v?([0-9]+(\.[0-9]+)*?)` +
		`(-([0-9]+[0-9A-Za-z\-~]*(\.[0-9A-Za-z\-~]+)*)|(-?([A-Za-z\-~]+[0-9A-Za-z\-~]*(\.[0-9A-Za-z\-~]+)*)))?` +
		`(\+([0-9A-Za-z\-~]+(\.[0-9A-Za-z\-~]+)*))?` +
		`?`

	// SemverRegexpRaw requires a separator between version and prerelease
	SemverRegexpRaw string = `v?([0-9]+(\.[0-9]+)*?)` +
		`(-([0-9]+[0-9A-Za-z\-~]*(\.[0-9A-Za-z\-~]+)*)|(-([A-Za-z\-~]+[0-9A-Za-z\-~]*(\.[0-9A-Za-z\-~]+)*)))?` +
		`(\+([0-9A-Za-z\-~]+(\.[0-9A-Za-z\-~]+)*))?` +
		`?`
)

// Version represents a single version.
type Version struct {
	metadata string
	pre      string
	segments []int64
	si       int
	original string
}

func init() {
	versionRegexp = regexp.MustCompile("^" + VersionRegexpRaw + "$")
	semverRegexp = regexp.MustCompile("^" + SemverRegexpRaw + "$")
}

// NewVersion parses the given version and returns a new
// Version.
func NewVersion(v string) (*Version, error) {
	return newVersion(v, versionRegexp)
}

// NewSemver parses the given version and returns a new
// Version that adheres strictly to SemVer specs
// https://semver.org/
func NewSemver(v string) (*Version, error) {
	return newVersion(v, semverRegexp)
}

func newVersion(v string, pattern *regexp.Regexp) (*Version, error) {
	matches := pattern.FindStringSubmatch(v)
	if matches == nil {
		return nil, fmt.Errorf("Malformed version: %s", v)
	}
	segmentsStr := strings.Split(matches[1], ".")
	segments := make([]int64, len(segmentsStr))
	for i, str := range segmentsStr {
		val, err := strconv.ParseInt(str, 10, 64)
		if err != nil {
			return nil, fmt.Errorf(
				"Error parsing version: %s", err)
		}

		segments[i] = val
	}

	// Even though we could support more than three segments, if we
	// got less than three, pad it with 0s. This is to cover the basic
	// default usecase of semver, which is MAJOR.MINOR.PATCH at the minimum
	for i := len(segments); i < 3; i++ {
		segments = append(segments, 0)
	}

	pre := matches[7]
	if pre == "" {
		pre = matches[4]
	}

	return &Version{
		metadata: matches[10],
		pre:      pre,
		segments: segments,
		si:       len(segmentsStr),
		original: v,
	}, nil
}

// Must is a helper that wraps a call to a function returning (*Version, error)
// and panics if error is non-nil.
func Must(v *Version, err error) *Version {
	if err != nil {
		panic(err)
	}

	return v
}

// Compare compares this version to another version. This
// returns -1, 0, or 1 if this version is smaller, equal,
// or larger than the other version, respectively.
//
// If you want boolean results, use the LessThan, Equal,
// GreaterThan, GreaterThanOrEqual or LessThanOrEqual methods.
func (v *Version) Compare(other *Version) int {
	// A quick, efficient equality check
	if v.String() == other.String() {
		return 0
	}

	segmentsSelf := v.Segments64()
	segmentsOther := other.Segments64()

	// If the segments are the same, we must compare on prerelease info
	if reflect.DeepEqual(segmentsSelf, segmentsOther) {
		preSelf := v.Prerelease()
		preOther := other.Prerelease()
		if preSelf == "" && preOther == "" {
			return 0
		}
		if preSelf == "" {
			return 1
		}
		if preOther == "" {
			return -1
		}

		return comparePrereleases(preSelf, preOther)
	}

	// Get the highest specificity (hS), or if they're equal, just use segmentSelf length
	lenSelf := len(segmentsSelf)
	lenOther := len(segmentsOther)
	hS := lenSelf
	if lenSelf < lenOther {
		hS = lenOther
	}
	// Compare the segments
	// Because a constraint could have more/less specificity than the version it's
	// checking, we need to account for a lopsided or jagged comparison
	for i := 0; i < hS; i++ {
		if i > lenSelf-1 {
			// This means Self had the lower specificity
			// Check to see if the remaining segments in Other are all zeros
			if !allZero(segmentsOther[i:]) {
				// if not, it means that Other has to be greater than Self
				return -1
			}
			break
		} else if i > lenOther-1 {
			// this means Other had the lower specificity
			// Check to see if the remaining segments in Self are all zeros -
			if !allZero(segmentsSelf[i:]) {
				//if not, it means that Self has to be greater than Other
				return 1
			}
			break
		}
		lhs := segmentsSelf[i]
		rhs := segmentsOther[i]
		if lhs == rhs {
			continue
		} else if lhs < rhs {
			return -1
		}
		// Otherwis, rhs was > lhs, they're not equal
		return 1
	}

	// if we got this far, they're equal
	return 0
}

func allZero(segs []int64) bool {
	for _, s := range segs {
		if s != 0 {
			return false
		}
	}
	return true
}

func comparePart(preSelf string, preOther string) int {
	if preSelf == preOther {
		return 0
	}

	var selfInt int64
	selfNumeric := true
	selfInt, err := strconv.ParseInt(preSelf, 10, 64)
	if err != nil {
		selfNumeric = false
	}

	var otherInt int64
	otherNumeric := true
	otherInt, err = strconv.ParseInt(preOther, 10, 64)
	if err != nil {
		otherNumeric = false
	}

	// if a part is empty, we use the other to decide
	if preSelf == "" {
		if otherNumeric {
			return -1
		}
		return 1
	}

	if preOther == "" {
		if selfNumeric {
			return 1
		}
		return -1
	}

	if selfNumeric && !otherNumeric {
		return -1
	} else if !selfNumeric && otherNumeric {
		return 1
	} else if !selfNumeric && !otherNumeric && preSelf > preOther {
		return 1
	} else if selfInt > otherInt {
		return 1
	}

	return -1
}

func comparePrereleases(v string, other string) int {
	// the same pre release!
	if v == other {
		return 0
	}

	// split both pre releases for analyse their parts
	selfPreReleaseMeta := strings.Split(v, ".")
	otherPreReleaseMeta := strings.Split(other, ".")

	selfPreReleaseLen := len(selfPreReleaseMeta)
	otherPreReleaseLen := len(otherPreReleaseMeta)

	biggestLen := otherPreReleaseLen
	if selfPreReleaseLen > otherPreReleaseLen {
		biggestLen = selfPreReleaseLen
	}

	// loop for parts to find the first difference
	for i := 0; i < biggestLen; i = i + 1 {
		partSelfPre := ""
		if i < selfPreReleaseLen {
			partSelfPre = selfPreReleaseMeta[i]
		}

		partOtherPre := ""
		if i < otherPreReleaseLen {
			partOtherPre = otherPreReleaseMeta[i]
		}

		compare := comparePart(partSelfPre, partOtherPre)
		// if parts are equals, continue the loop
		if compare != 0 {
			return compare
		}
	}

	return 0
}

// Core returns a new version constructed from only the MAJOR.MINOR.PATCH
// segments of the version, without prerelease or metadata.
func (v *Version) Core() *Version {
	segments := v.Segments64()
	segmentsOnly := fmt.Sprintf("%d.%d.%d", segments[0], segments[1], segments[2])
	return Must(NewVersion(segmentsOnly))
}

// Equal tests if two versions are equal.
func (v *Version) Equal(o *Version) bool {
	if v == nil || o == nil {
		return v == o
	}

	return v.Compare(o) == 0
}

// GreaterThan tests if this version is greater than another version.
func (v *Version) GreaterThan(o *Version) bool {
	return v.Compare(o) > 0
}

// GreaterThanOrEqual tests if this version is greater than or equal to another version.
func (v *Version) GreaterThanOrEqual(o *Version) bool {
	return v.Compare(o) >= 0
}

// LessThan tests if this version is less than another version.
func (v *Version) LessThan(o *Version) bool {
	return v.Compare(o) < 0
}

// LessThanOrEqual tests if this version is less than or equal to another version.
func (v *Version) LessThanOrEqual(o *Version) bool {
	return v.Compare(o) <= 0
}

// Metadata returns any metadata that was part of the version
// string.
//
// Metadata is anything that comes after the "+" in the version.
// For example, with "1.2.3+beta", the metadata is "beta".
func (v *Version) Metadata() string {
	return v.metadata
}

// Prerelease returns any prerelease data that is part of the version,
// or blank if there is no prerelease data.
//
// Prerelease information is anything that comes after the "-" in the
// version (but before any metadata). For example, with "1.2.3-beta",
// the prerelease information is "beta".
func (v *Version) Prerelease() string {
	return v.pre
}

// Segments returns the numeric segments of the version as a slice of ints.
//
// This excludes any metadata or pre-release information. For example,
// for a version "1.2.3-beta", segments will return a slice of
// 1, 2, 3.
func (v *Version) Segments() []int {
	segmentSlice := make([]int, len(v.segments))
	for i, v := range v.segments {
		segmentSlice[i] = int(v)
	}
	return segmentSlice
}

// Segments64 returns the numeric segments of the version as a slice of int64s.
//
// This excludes any metadata or pre-release information. For example,
// for a version "1.2.3-beta", segments will return a slice of
// 1, 2, 3.
func (v *Version) Segments64() []int64 {
	result := make([]int64, len(v.segments))
	copy(result, v.segments)
	return result
}

// String returns the full version string included pre-release
// and metadata information.
//
// This value is rebuilt according to the parsed segments and other
// information. Therefore, ambiguities in the version string such as
// prefixed zeroes (1.04.0 => 1.4.0), `v` prefix (v1.0.0 => 1.0.0), and
// missing parts (1.0 => 1.0.0) will be made into a canonicalized form
// as shown in the parenthesized examples.
func (v *Version) String() string {
	var buf bytes.Buffer
	fmtParts := make([]string, len(v.segments))
	for i, s := range v.segments {
		// We can ignore err here since we've pre-parsed the values in segments
		str := strconv.FormatInt(s, 10)
		fmtParts[i] = str
	}
	fmt.Fprintf(&buf, strings.Join(fmtParts, "."))
	if v.pre != "" {
		fmt.Fprintf(&buf, "-%s", v.pre)
	}
	if v.metadata != "" {
		fmt.Fprintf(&buf, "+%s", v.metadata)
	}

	return buf.String()
}

// Original returns the original parsed version as-is, including any
// potential whitespace, `v` prefix, etc.
func (v *Version) Original() string {
	return v.original
}

// UnmarshalText implements encoding.TextUnmarshaler interface.
func (v *Version) UnmarshalText(b []byte) error {
	temp, err := NewVersion(string(b))
	if err != nil {
		return err
	}

	*v = *temp

	return nil
}

// MarshalText implements encoding.TextMarshaler interface.
func (v *Version) MarshalText() ([]byte, error) {
	return []byte(v.String()), nil
}

// Engine-only models of NewVersion / Compare for plain dotted-decimal versions (v?N(.N)*).
// The real NewVersion is regexp-driven and the real Compare uses String() + reflect.DeepEqual;
// pre-release and metadata suffixes are outside the model (such strings are reported malformed,
// which the native replay of every witness cross-checks against the real library).


func zzModelNewVersion(v string) (*Version, error) {
	s := v
	if len(s) > 0 && s[0] == 'v' {
		s = s[1:]
	}
	if len(s) == 0 {
		return nil, fmt.Errorf("Malformed version: %s", v)
	}
	var segments []int64
	cur := int64(0)
	nd := 0
	for i := 0; i < len(s); i++ {
		c := s[i]
		if c == '.' {
			if nd == 0 {
				return nil, fmt.Errorf("Malformed version: %s", v)
			}
			segments = append(segments, cur)
			cur, nd = 0, 0
			continue
		}
		if c < '0' || c > '9' {
			return nil, fmt.Errorf("Malformed version: %s", v)
		}
		if nd >= 18 {
			return nil, fmt.Errorf("Malformed version: %s", v)
		}
		cur = cur*10 + int64(c-'0')
		nd++
	}
	if nd == 0 {
		return nil, fmt.Errorf("Malformed version: %s", v)
	}
	segments = append(segments, cur)
	si := len(segments)
	for i := len(segments); i < 3; i++ {
		segments = append(segments, 0)
	}
	return &Version{segments: segments, si: si, original: v}, nil
}

func zzModelCompare(v *Version, other *Version) int {
	a, b := v.segments, other.segments
	n := len(a)
	if len(b) > n {
		n = len(b)
	}
	for i := 0; i < n; i++ {
		var x, y int64
		if i < len(a) {
			x = a[i]
		}
		if i < len(b) {
			y = b[i]
		}
		if x < y {
			return -1
		}
		if x > y {
			return 1
		}
	}
	return 0
}
