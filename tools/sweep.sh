#!/bin/sh
# sweep.sh <tier> <id>...  - run checks one after the other from the current directory's ./check,
# print one summary line per check plus its first alarm lines (full logs: /tmp/sweep_<tier>_<id>.log)
tier=$1; shift
for c in "$@"; do
  s=$(date +%s)
  ./check "$c" "$tier" > "/tmp/sweep_${tier}_$c.log" 2>&1; rc=$?
  echo "=== $c rc=$rc $(( $(date +%s)-s ))s :: $(grep "^$c $tier" "/tmp/sweep_${tier}_$c.log")"
  grep "^INCONC\|^VIOL" "/tmp/sweep_${tier}_$c.log" | cut -c1-300 | head -5
done
