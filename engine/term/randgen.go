package term

import "math/rand"

// The simplifier is part of the trusted base of every check: this test builds random terms
// through the Factory (which simplifies while building), computes the reference value of the
// same construction directly on machine integers, and requires Eval(simplified) == reference.
// Constants biased to boundary values and to the shapes the rewrite rules look for
// (masks, powers of two, zero high/low parts).

// RandGen builds random terms together with their reference values (self-tests of the simplifier,
// the evaluator and the SMT-LIB printer).
type RandGen struct {
	F   *Factory
	R   *rand.Rand
	Env map[string]uint64
}

// Widths are the standard widths the generator draws from.
var Widths = widths

var widths = []int{1, 4, 8, 16, 32, 64}

func (g *RandGen) constVal(w int) uint64 {
	m := mask(w)
	switch g.R.Intn(8) {
	case 0:
		return 0
	case 1:
		return m
	case 2:
		return 1
	case 3:
		return (uint64(1) << uint(g.R.Intn(w))) & m
	case 4:
		return ((uint64(1) << uint(g.R.Intn(w))) - 1) & m
	case 5:
		return (m << uint(g.R.Intn(w))) & m
	case 6:
		return uint64(g.R.Intn(256)) & m
	}
	return g.R.Uint64() & m
}

func (g *RandGen) BV(d, w int) (*Term, uint64) {
	m := mask(w)
	if d == 0 || g.R.Intn(6) == 0 {
		if g.R.Intn(3) == 0 {
			v := g.constVal(w)
			return g.F.Const(w, v), v
		}
		name := string(rune('a'+g.R.Intn(3))) + "_" + string(rune('0'+w%10)) + string(rune('0'+w/10))
		if _, ok := g.Env[name]; !ok {
			g.Env[name] = g.constVal(w)
		}
		return g.F.Var(name, w), g.Env[name]
	}
	switch g.R.Intn(12) {
	case 0, 1, 2, 3:
		ops := []Op{OpAdd, OpSub, OpMul, OpAnd, OpOr, OpXor, OpShl, OpLShr, OpAShr, OpUDiv, OpURem, OpSDiv, OpSRem}
		op := ops[g.R.Intn(len(ops))]
		a, av := g.BV(d-1, w)
		b, bv := g.BV(d-1, w)
		if (op == OpSDiv || op == OpSRem) && bv == 0 {
			op = OpAdd
		}
		var v uint64
		switch op {
		case OpAdd:
			v = av + bv
		case OpSub:
			v = av - bv
		case OpMul:
			v = av * bv
		case OpAnd:
			v = av & bv
		case OpOr:
			v = av | bv
		case OpXor:
			v = av ^ bv
		case OpShl:
			if bv >= uint64(w) {
				v = 0
			} else {
				v = av << bv
			}
		case OpLShr:
			if bv >= uint64(w) {
				v = 0
			} else {
				v = av >> bv
			}
		case OpAShr:
			s := bv
			if s >= uint64(w) {
				s = uint64(w - 1)
			}
			v = uint64(sext64(av, w) >> s)
		case OpUDiv:
			if bv == 0 {
				v = m
			} else {
				v = av / bv
			}
		case OpURem:
			if bv == 0 {
				v = av
			} else {
				v = av % bv
			}
		case OpSDiv:
			x, y := sext64(av, w), sext64(bv, w)
			if y == -1 {
				v = uint64(-x)
			} else {
				v = uint64(x / y)
			}
		case OpSRem:
			x, y := sext64(av, w), sext64(bv, w)
			if y == -1 {
				v = 0
			} else {
				v = uint64(x % y)
			}
		}
		return g.F.Bin(op, a, b), v & m
	case 4:
		a, av := g.BV(d-1, w)
		return g.F.Not(a), ^av & m
	case 5:
		a, av := g.BV(d-1, w)
		return g.F.Neg(a), -av & m
	case 6: // extract from a wider term
		var cands []int
		for _, x := range widths {
			if x >= w {
				cands = append(cands, x)
			}
		}
		sw := cands[g.R.Intn(len(cands))]
		a, av := g.BV(d-1, sw)
		lo := g.R.Intn(sw - w + 1)
		return g.F.Extract(a, lo+w-1, lo), (av >> uint(lo)) & m
	case 7: // concat of two parts
		if w < 2 {
			return g.BV(d-1, w)
		}
		lw := 1 + g.R.Intn(w-1)
		hi, hv := g.bvAny(d-1, w-lw)
		lo, lv := g.bvAny(d-1, lw)
		return g.F.Concat(hi, lo), (hv<<uint(lw) | lv) & m
	case 8, 9: // zext / sext from a narrower term
		var cands []int
		for _, x := range widths {
			if x < w {
				cands = append(cands, x)
			}
		}
		if len(cands) == 0 {
			return g.BV(d-1, w)
		}
		sw := cands[g.R.Intn(len(cands))]
		a, av := g.BV(d-1, sw)
		if g.R.Intn(2) == 0 {
			return g.F.Zext(a, w), av
		}
		return g.F.Sext(a, w), uint64(sext64(av, sw)) & m
	default:
		c, cv := g.Bool(d - 1)
		a, av := g.BV(d-1, w)
		b, bv := g.BV(d-1, w)
		if cv {
			return g.F.Ite(c, a, b), av
		}
		return g.F.Ite(c, a, b), bv
	}
}

// bvAny: any width 1..64 (not only the standard ones), for concat parts
func (g *RandGen) bvAny(d, w int) (*Term, uint64) {
	for _, x := range widths {
		if x == w {
			return g.BV(d, w)
		}
	}
	// extract w bits from the next standard width
	for _, x := range widths {
		if x > w {
			a, av := g.BV(d, x)
			lo := g.R.Intn(x - w + 1)
			return g.F.Extract(a, lo+w-1, lo), (av >> uint(lo)) & mask(w)
		}
	}
	panic("width")
}

func (g *RandGen) Bool(d int) (*Term, bool) {
	if d == 0 {
		b := g.R.Intn(2) == 0
		if g.R.Intn(3) == 0 {
			return g.F.Bool(b), b
		}
		a, av := g.BV(0, 1)
		return g.F.Eq(a, g.F.Const(1, 1)), av == 1
	}
	switch g.R.Intn(8) {
	case 0, 1, 2, 3:
		w := widths[g.R.Intn(len(widths))]
		a, av := g.BV(d-1, w)
		b, bv := g.BV(d-1, w)
		switch g.R.Intn(5) {
		case 0:
			return g.F.Eq(a, b), av == bv
		case 1:
			return g.F.Cmp(OpUlt, a, b), av < bv
		case 2:
			return g.F.Cmp(OpUle, a, b), av <= bv
		case 3:
			return g.F.Cmp(OpSlt, a, b), sext64(av, w) < sext64(bv, w)
		}
		return g.F.Cmp(OpSle, a, b), sext64(av, w) <= sext64(bv, w)
	case 4:
		a, av := g.Bool(d - 1)
		return g.F.BNot(a), !av
	case 5:
		a, av := g.Bool(d - 1)
		b, bv := g.Bool(d - 1)
		return g.F.BAnd(a, b), av && bv
	case 6:
		a, av := g.Bool(d - 1)
		b, bv := g.Bool(d - 1)
		return g.F.BOr(a, b), av || bv
	}
	a, av := g.Bool(d - 1)
	b, bv := g.Bool(d - 1)
	return g.F.Eq(a, b), av == bv
}

