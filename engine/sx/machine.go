package sx

import (
	"fmt"
	"go/types"
	"sort"
	"strings"
	"sync"

	"golang.org/x/tools/go/ssa"

	"gosymx/smt"
	"gosymx/term"
)

// Program is the immutable part shared by all machines.
type Program struct {
	Prog       *ssa.Program
	Sizes      types.Sizes
	fnInfos    sync.Map // *ssa.Function -> *fnInfo
	rtErrType  types.Type
	NoInitPkgs map[string]bool          // package paths whose init is never run
	ModelFns   map[string]*ssa.Function // callee name -> replacement (Go-source models)
	Trace      bool
	Tier       int
	constCache sync.Map // *ssa.Const -> value
	mu         sync.Mutex
}

type fnInfo struct {
	regIdx    map[ssa.Value]int
	nregs     int
	intr      intrinsic // nil if none
	model     *ssa.Function
	name      string
	isPkgInit bool
}

// WorkerCache holds per-worker (single-threaded) caches shared by successive paths.
type WorkerCache struct {
	infos  map[*ssa.Function]*fnInfo
	consts map[*ssa.Const]value
}

func NewWorkerCache() *WorkerCache {
	return &WorkerCache{infos: map[*ssa.Function]*fnInfo{}, consts: map[*ssa.Const]value{}}
}

// Limits bound a single path.
type Limits struct {
	MaxSteps      int64
	MaxConcretize int
	LoopSymIters  int
}

type pathAbort struct {
	kind string // "unsupported", "limit", "infeasible", "wedge", "exit", "done"
	msg  string
}

type targetPanic struct{ v value }

// Violation describes a failed obligation on one path.
type Violation struct {
	Label string
	Msg   string
	Model map[string]uint64
	Kind  string // "assert", "panic", "exit", "wedge"
	Where string
}

type Observation struct {
	Label string
	T     types.Type
	Val   value // may be symbolic; rendered under a model later
}

type NondetRec struct {
	Name string
	W    int
	T    *term.Term
}

// PathResult is what one execution of the harness produced.
type PathResult struct {
	Decisions   []uint64
	NewPrefixes [][]uint64
	Status      string // "ok", "violation", "inconclusive", "infeasible"
	Reason      string
	Violations  []Violation
	Asserts     int // obligations checked (discharged or violated)
	AssertsConc int // obligations decided concretely
	Covers      map[string]bool
	Steps       int64
	Unknowns    int
	Nondets     []NondetRec
	Obs         []Observation
	Choices     []int
	Model       map[string]uint64 // witness model of the full path (if requested)
	ObsVals     []string
	Funcs       map[string]int // functions entered -> count
}

type decisionKind int

// Machine executes one path.
type Machine struct {
	P   *Program
	F   *term.Factory
	S   *smt.Solver
	Lim Limits

	globals  map[*ssa.Global]*value
	pkgState map[*ssa.Package]int

	cos    []*coroutine
	cur    *coroutine
	nextCo int

	prefix []uint64
	taken  []uint64
	newPfx [][]uint64

	pc      []*term.Term
	nvars   int
	steps   int64
	res     *PathResult
	unknown int

	// environment model state
	udpLog        []value
	timers        int
	exitOK        bool
	funcs         map[string]int
	wantFuncs     bool
	inNested      int
	KnownPanicOK  func(where string) bool
	ss            *syncState
	now           int64
	wc            *WorkerCache
	connClosed    bool
	tag           string
	lastRecovered string
	initDepth     int
	lastPkg       *ssa.Package
	fcount        map[*fnInfo]int
}

func (m *Machine) info(fn *ssa.Function) *fnInfo {
	if fi, ok := m.wc.infos[fn]; ok {
		return fi
	}
	fi := m.P.info(fn)
	m.wc.infos[fn] = fi
	return fi
}

func NewProgram(prog *ssa.Program, sizes types.Sizes) *Program {
	p := &Program{Prog: prog, Sizes: sizes, NoInitPkgs: map[string]bool{}, ModelFns: map[string]*ssa.Function{}}
	if rt := prog.ImportedPackage("runtime"); rt != nil {
		if t := rt.Type("errorString"); t != nil {
			p.rtErrType = t.Object().Type()
		}
	}
	return p
}

// std packages whose initialisers the engine runs (lazily, on first use).
var stdInit = map[string]bool{
	"errors": true, "io": true, "encoding/binary": true, "strconv": true, "strings": true,
	"bytes": true, "unicode": true, "unicode/utf8": true, "time": true, "sort": true,
	"math": true, "math/bits": true, "net": true, "slices": true, "encoding/hex": true,
	"io/fs": true,
}

var noInitThirdParty = []string{
	"github.com/sirupsen/logrus", "github.com/free5gc/util", "github.com/free5gc/go-upf/internal/logger",
	"github.com/gin-", "github.com/davecgh/go-spew", "github.com/stretchr", "gopkg.in/", "golang.org/x/",
	"github.com/asaskevich", "github.com/urfave", "google.golang.org", "github.com/bytedance", "github.com/go-playground",
	"github.com/tim-ywliu", "github.com/goccy", "github.com/ugorji", "github.com/json-iterator", "github.com/pelletier",
	"github.com/mattn", "github.com/leodido", "github.com/gabriel-vasile", "github.com/klauspost", "github.com/twitchyliquid64",
	"github.com/chenzhuoyu", "github.com/modern-go",
}

func (p *Program) wantInit(path string) bool {
	if p.NoInitPkgs[path] {
		return false
	}
	first := path
	if i := strings.Index(path, "/"); i >= 0 {
		first = path[:i]
	}
	if !strings.Contains(first, ".") {
		return stdInit[path]
	}
	for _, pre := range noInitThirdParty {
		if strings.HasPrefix(path, pre) {
			return false
		}
	}
	return true
}

func (p *Program) info(fn *ssa.Function) *fnInfo {
	if fi, ok := p.fnInfos.Load(fn); ok {
		return fi.(*fnInfo)
	}
	fi := &fnInfo{regIdx: make(map[ssa.Value]int), name: fn.String()}
	n := 0
	add := func(v ssa.Value) {
		fi.regIdx[v] = n
		n++
	}
	for _, p := range fn.Params {
		add(p)
	}
	for _, fv := range fn.FreeVars {
		add(fv)
	}
	for _, b := range fn.Blocks {
		for _, ins := range b.Instrs {
			if v, ok := ins.(ssa.Value); ok {
				add(v)
			}
		}
	}
	fi.nregs = n
	var inert bool
	fi.intr, inert = lookupIntrinsic2(fn, fi.name)
	fi.isPkgInit = fn.Pkg != nil && fn.Name() == "init" && fn.Signature.Recv() == nil && fn.Pkg.Func("init") == fn
	if mf, ok := p.ModelFns[fi.name]; ok {
		fi.model = mf
		if inert {
			fi.intr = nil // a configured model replaces the inert default
		}
	}
	act, _ := p.fnInfos.LoadOrStore(fn, fi)
	return act.(*fnInfo)
}

func NewMachine(p *Program, s *smt.Solver, lim Limits, prefix []uint64, wc *WorkerCache) *Machine {
	if wc == nil {
		wc = NewWorkerCache()
	}
	m := &Machine{
		wc: wc,
		P:  p, F: term.NewFactory(), S: s, Lim: lim,
		globals:  make(map[*ssa.Global]*value),
		pkgState: make(map[*ssa.Package]int),
		prefix:   prefix,
		res:      &PathResult{Covers: map[string]bool{}},
	}
	return m
}

// ---- aborts ----

func (m *Machine) unsupported(format string, args ...interface{}) {
	w := "?"
	func() {
		defer func() { recover() }()
		w = m.where()
	}()
	panic(pathAbort{"unsupported", fmt.Sprintf(format, args...) + " at " + w})
}

func (m *Machine) where() string {
	if m.cur == nil || len(m.cur.stack) == 0 {
		return "?"
	}
	var parts []string
	for i := len(m.cur.stack) - 1; i >= 0 && len(parts) < 6; i-- {
		fr := m.cur.stack[i]
		pos := ""
		if fr.block != nil && fr.pc < len(fr.block.Instrs) {
			p := m.P.Prog.Fset.Position(fr.block.Instrs[fr.pc].Pos())
			if p.IsValid() {
				f := p.Filename
				if j := strings.LastIndex(f, "/"); j >= 0 {
					f = f[j+1:]
				}
				pos = fmt.Sprintf("@%s:%d", f, p.Line)
			}
		}
		parts = append(parts, fr.fn.String()+pos)
	}
	return strings.Join(parts, " <- ")
}

// ---- path condition & decisions ----

func (m *Machine) addPC(c *term.Term) {
	if c.IsConst() {
		if c.Val == 0 {
			panic(pathAbort{"infeasible", "path condition false"})
		}
		return
	}
	m.pc = append(m.pc, c)
	m.S.Assert(c)
}

func (m *Machine) check(extra *term.Term) smt.Result {
	r := m.S.CheckWith(extra)
	if r == smt.Unknown {
		m.unknown++
	}
	return r
}

// choose picks one of alts (Boolean constraints). Alternatives that are the
// constant false are never taken. Records the decision.
func (m *Machine) choose(alts []*term.Term) int {
	k := len(m.taken)
	if k < len(m.prefix) {
		i := int(m.prefix[k])
		if i >= len(alts) {
			panic(pathAbort{"unsupported", fmt.Sprintf("replay divergence: decision %d has %d alternatives, prefix says %d at %s", k, len(alts), i, m.where())})
		}
		m.taken = append(m.taken, uint64(i))
		m.addPC(alts[i])
		return i
	}
	var feas []int
	cand := 0
	for _, a := range alts {
		if !(a.IsConst() && a.Val == 0) {
			cand++
		}
	}
	for i, a := range alts {
		if a.IsConst() {
			if a.Val != 0 {
				feas = append(feas, i)
			}
			continue
		}
		// last candidate with none feasible so far must be feasible (pc is sat)
		if len(feas) == 0 && i == len(alts)-1 && cand >= 1 && m.exhaustive(alts) {
			feas = append(feas, i)
			continue
		}
		switch m.check(a) {
		case smt.Sat, smt.Unknown:
			feas = append(feas, i)
		}
	}
	if len(feas) == 0 {
		panic(pathAbort{"infeasible", "no feasible alternative at " + m.where()})
	}
	pick := feas[0]
	for _, j := range feas[1:] {
		np := make([]uint64, k+1)
		copy(np, m.taken)
		np[k] = uint64(j)
		m.newPfx = append(m.newPfx, np)
	}
	m.taken = append(m.taken, uint64(pick))
	m.addPC(alts[pick])
	return pick
}

// exhaustive: alternatives of the form (c, not c) cover everything.
func (m *Machine) exhaustive(alts []*term.Term) bool {
	if len(alts) == 2 {
		return m.F.BNot(alts[0]) == alts[1]
	}
	return false
}

// branch decides a symbolic condition; returns the concrete outcome on this path.
func (m *Machine) branch(c value) bool {
	switch c := c.(type) {
	case bool:
		return c
	case *term.Term:
		if c.IsConst() {
			return c.Val != 0
		}
		i := m.choose([]*term.Term{c, m.F.BNot(c)})
		return i == 0
	}
	panic(fmt.Sprintf("branch on %T", c))
}

// concretize picks a concrete value for t, forking over all feasible values.
func (m *Machine) concretize(t *term.Term, what string) uint64 {
	if t.IsConst() {
		return t.Val
	}
	k := len(m.taken)
	if k < len(m.prefix) {
		v := m.prefix[k]
		m.taken = append(m.taken, v)
		m.addPC(m.F.Eq(t, m.F.Const(t.W, v)))
		return v
	}
	var vals []uint64
	m.S.Define(t)
	m.S.Push()
	for {
		r := m.S.Check()
		if r == smt.Unknown {
			m.unknown++
			m.S.Pop()
			panic(pathAbort{"unsupported", fmt.Sprintf("solver unknown while concretizing %s (after %d values; decisions %v) at %s", what, len(vals), m.taken, m.where())})
		}
		if r == smt.Unsat {
			break
		}
		mod, err := m.S.Model(term.VarsOf(t))
		if err != nil {
			m.S.Pop()
			panic(pathAbort{"unsupported", "model error: " + err.Error()})
		}
		v := term.Eval(t, mod)
		vals = append(vals, v)
		if len(vals) > m.Lim.MaxConcretize {
			m.S.Pop()
			panic(pathAbort{"limit", fmt.Sprintf("more than %d feasible values for %s at %s", m.Lim.MaxConcretize, what, m.where())})
		}
		m.S.Assert(m.F.BNot(m.F.Eq(t, m.F.Const(t.W, v))))
	}
	m.S.Pop()
	if len(vals) == 0 {
		panic(pathAbort{"infeasible", "no value for " + what})
	}
	sort.Slice(vals, func(i, j int) bool { return vals[i] < vals[j] })
	for _, v := range vals[1:] {
		np := make([]uint64, k+1)
		copy(np, m.taken)
		np[k] = v
		m.newPfx = append(m.newPfx, np)
	}
	m.taken = append(m.taken, vals[0])
	m.addPC(m.F.Eq(t, m.F.Const(t.W, vals[0])))
	return vals[0]
}

// pureChoice forks n ways without constraint (nondetChoice, select).
func (m *Machine) pureChoice(n int) int {
	if n <= 1 {
		return 0
	}
	alts := make([]*term.Term, n)
	for i := range alts {
		alts[i] = m.F.True()
	}
	return m.choose(alts)
}

// ---- nondet / assertions ----

func (m *Machine) fresh(name string, w int) *term.Term {
	m.nvars++
	clean := strings.Map(func(r rune) rune {
		if r >= 'a' && r <= 'z' || r >= 'A' && r <= 'Z' || r >= '0' && r <= '9' || r == '_' {
			return r
		}
		return '_'
	}, name)
	t := m.F.Var(fmt.Sprintf("n%d_%s", m.nvars, clean), w)
	m.res.Nondets = append(m.res.Nondets, NondetRec{Name: name, W: w, T: t})
	return t
}

func (m *Machine) currentModel() (map[string]uint64, bool) {
	r := m.S.Check()
	if r != smt.Sat {
		if r == smt.Unknown {
			m.unknown++
		}
		return nil, false
	}
	mod, err := m.S.Model(m.F.Vars)
	if err != nil {
		return nil, false
	}
	return mod, true
}

func (m *Machine) replaying() bool { return len(m.taken) < len(m.prefix) }

func (m *Machine) assertCond(label string, c value, kind string) {
	if m.replaying() {
		// already discharged by the run that created this prefix
		if t, ok := c.(*term.Term); ok {
			m.addPC(t)
		}
		return
	}
	m.res.Asserts++
	switch c := c.(type) {
	case bool:
		m.res.AssertsConc++
		if !c {
			mod, ok := m.currentModel()
			if !ok {
				m.res.Violations = append(m.res.Violations, Violation{Label: label, Kind: kind, Msg: "concretely false; no model for path (inconclusive)", Where: m.where()})
				panic(pathAbort{"unsupported", "assertion " + label + " concretely false but path model unavailable"})
			}
			m.res.Violations = append(m.res.Violations, Violation{Label: label, Kind: kind, Model: mod, Where: m.where()})
			// keep going: later obligations on this path are still checked (no masking)
			if len(m.res.Violations) >= 8 {
				panic(pathAbort{"done", "violation"})
			}
		}
	case *term.Term:
		neg := m.F.BNot(c)
		if neg.IsConst() {
			m.assertCond(label, neg.Val == 0, kind)
			return
		}
		m.S.Define(neg)
		m.S.Push()
		m.S.Assert(neg)
		r := m.S.Check()
		switch r {
		case smt.Sat:
			mod, err := m.S.Model(m.F.Vars)
			m.S.Pop()
			if err != nil {
				panic(pathAbort{"unsupported", "model error: " + err.Error()})
			}
			m.res.Violations = append(m.res.Violations, Violation{Label: label, Kind: kind, Model: mod, Where: m.where()})
			// continue on the inputs that satisfy the assertion, if any
			if len(m.res.Violations) >= 8 || m.check(c) == smt.Unsat {
				panic(pathAbort{"done", "violation"})
			}
			m.addPC(c)
			return
		case smt.Unknown:
			m.S.Pop()
			m.unknown++
			panic(pathAbort{"unsupported", "solver unknown on assertion " + label})
		}
		m.S.Pop()
		m.addPC(c)
	default:
		panic(fmt.Sprintf("assert on %T", c))
	}
}

func (m *Machine) assume(c value) {
	switch c := c.(type) {
	case bool:
		if !c {
			panic(pathAbort{"infeasible", "assume(false)"})
		}
	case *term.Term:
		if c.IsConst() {
			m.assume(c.Val != 0)
			return
		}
		if len(m.taken) < len(m.prefix) {
			// replaying: feasibility was established when the prefix was created
			m.addPC(c)
			return
		}
		switch m.check(c) {
		case smt.Unsat:
			panic(pathAbort{"infeasible", "assume infeasible"})
		}
		m.addPC(c)
	}
}
