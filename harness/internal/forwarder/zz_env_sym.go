//go:build verif

package forwarder

import "github.com/free5gc/go-upf/internal/forwarder/perio"

func zzYield()

// zzPerio: the periodic-report server the driver registers URRs with. Its Serve loop is
// not started by default; harnesses that need it start it themselves.
func zzPerio() *perio.Server {
	if zzPS == nil {
		zzPS = perio.ZZNewServer()
	}
	return zzPS
}

var zzResetHook func()
