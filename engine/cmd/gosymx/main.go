// gosymx: bounded symbolic execution of Go SSA with an SMT solver.
package main

import (
	"runtime/debug"
	"runtime/pprof"
	"encoding/json"
	"flag"
	"fmt"
	"go/types"
	"os"
	"path/filepath"
	"runtime"
	"sort"
	"strings"
	"time"

	"golang.org/x/tools/go/packages"
	"golang.org/x/tools/go/ssa"
	"golang.org/x/tools/go/ssa/ssautil"

	"gosymx/sx"
)

type Job struct {
	Pkg      string   `json:"pkg"`     // relative to repo, e.g. internal/gtpv1
	Entries  []string `json:"entries"` // harness function names (prefix match with trailing *)
	MaxSteps int64    `json:"max_steps"`
	MaxPaths int      `json:"max_paths"`
	MaxConc  int      `json:"max_concretize"`
	BudgetS  int      `json:"budget_s"`
	Witness  int      `json:"witnesses"`
}

type Spec struct {
	Repo       string            `json:"repo"`
	Overlay    map[string]string `json:"overlay"` // virtual path -> real file
	Tags       string            `json:"tags"`
	Jobs       []Job             `json:"jobs"`
	Workers    int               `json:"workers"`
	Solver     []string          `json:"solver"`
	TimeoutMS  int               `json:"timeout_ms"`
	NoInitPkgs []string          `json:"no_init_pkgs"`
	Models     map[string]string `json:"models"` // callee full name -> "pkgpath.Func"
	Out        string            `json:"out"`
	Trace      bool              `json:"trace"`
	Tier       int               `json:"tier"`
	Verbose    bool              `json:"verbose"`
	StopOnViolation bool         `json:"stop_on_violation"`
}

type EntryResult struct {
	Pkg     string      `json:"pkg"`
	Entry   string      `json:"entry"`
	Summary *sx.Summary `json:"summary"`
}

type Output struct {
	LoadS    float64       `json:"load_s"`
	BuildS   float64       `json:"build_s"`
	Packages int           `json:"packages"`
	Results  []EntryResult `json:"results"`
	Error    string        `json:"error,omitempty"`
}

func main() {
	specPath := flag.String("spec", "", "job spec JSON file")
	tagsOf := flag.String("structtags", "", "print the struct types of the package in this directory (fields, types, tags) as JSON and exit")
	flag.Parse()
	if *tagsOf != "" {
		structTags(*tagsOf)
		return
	}
	if *specPath == "" {
		fmt.Fprintln(os.Stderr, "usage: gosymx -spec job.json")
		os.Exit(2)
	}
	data, err := os.ReadFile(*specPath)
	if err != nil {
		fatal(err)
	}
	var spec Spec
	if err := json.Unmarshal(data, &spec); err != nil {
		fatal(err)
	}
	if pf := os.Getenv("GOSYMX_PROF"); pf != "" {
		f, _ := os.Create(pf)
		pprof.StartCPUProfile(f)
		defer pprof.StopCPUProfile()
	}
	if os.Getenv("GOGC") == "" {
		debug.SetGCPercent(200)
	}
	out := run(&spec)
	enc, _ := json.MarshalIndent(out, "", " ")
	if spec.Out != "" {
		if err := os.WriteFile(spec.Out, enc, 0o644); err != nil {
			fatal(err)
		}
	} else {
		os.Stdout.Write(enc)
	}
	if out.Error != "" {
		fmt.Fprintln(os.Stderr, "gosymx:", out.Error)
		os.Exit(2)
	}
}

func fatal(err error) {
	fmt.Fprintln(os.Stderr, "gosymx:", err)
	os.Exit(2)
}

func run(spec *Spec) *Output {
	out := &Output{}
	t0 := time.Now()
	overlay := map[string][]byte{}
	for virt, real := range spec.Overlay {
		b, err := os.ReadFile(real)
		if err != nil {
			out.Error = err.Error()
			return out
		}
		overlay[virt] = b
	}
	var patterns []string
	seen := map[string]bool{}
	for _, j := range spec.Jobs {
		p := "./" + strings.TrimPrefix(j.Pkg, "./")
		if !seen[p] {
			seen[p] = true
			patterns = append(patterns, p)
		}
	}
	cfg := &packages.Config{
		Mode:       packages.LoadAllSyntax,
		Dir:        spec.Repo,
		Overlay:    overlay,
		BuildFlags: []string{"-tags=" + spec.Tags},
		Env:        append(os.Environ(), "GOFLAGS=-mod=mod", "GOPROXY=off", "GOSUMDB=off", "GOTOOLCHAIN=local", "CGO_ENABLED=0"),
	}
	pkgs, err := packages.Load(cfg, patterns...)
	if err != nil {
		out.Error = "load: " + err.Error()
		return out
	}
	var errs []string
	packages.Visit(pkgs, nil, func(p *packages.Package) {
		for _, e := range p.Errors {
			errs = append(errs, e.Error())
		}
	})
	if len(errs) > 0 {
		if len(errs) > 10 {
			errs = errs[:10]
		}
		out.Error = "type errors: " + strings.Join(errs, "; ")
		return out
	}
	out.LoadS = time.Since(t0).Seconds()
	t1 := time.Now()
	prog, spkgs := ssautil.AllPackages(pkgs, ssa.InstantiateGenerics)
	prog.Build()
	out.BuildS = time.Since(t1).Seconds()
	out.Packages = len(prog.AllPackages())

	P := sx.NewProgram(prog, types.SizesFor("gc", "amd64"))
	P.Trace = spec.Trace
	P.Tier = spec.Tier
	for _, n := range spec.NoInitPkgs {
		P.NoInitPkgs[n] = true
	}
	for callee, model := range spec.Models {
		i := strings.LastIndex(model, ".")
		mp := prog.ImportedPackage(model[:i])
		if mp == nil {
			out.Error = "model package not found: " + model
			return out
		}
		mf := mp.Func(model[i+1:])
		if mf == nil {
			out.Error = "model function not found: " + model
			return out
		}
		P.ModelFns[callee] = mf
	}
	workers := spec.Workers
	if workers <= 0 {
		workers = runtime.NumCPU()
	}
	solver := spec.Solver
	if len(solver) == 0 {
		solver = []string{"z3", "-in"}
	}
	tmo := spec.TimeoutMS
	if tmo == 0 {
		tmo = 20000
	}
	byPath := map[string]*ssa.Package{}
	for i, p := range pkgs {
		rel, _ := filepath.Rel(spec.Repo, filepath.Dir(firstFile(p)))
		byPath[rel] = spkgs[i]
	}
	for _, j := range spec.Jobs {
		sp := byPath[strings.TrimPrefix(j.Pkg, "./")]
		if sp == nil {
			out.Error = "package not loaded: " + j.Pkg
			return out
		}
		var names []string
		for _, e := range j.Entries {
			if strings.HasSuffix(e, "*") {
				pre := strings.TrimSuffix(e, "*")
				for n, mem := range sp.Members {
					if _, ok := mem.(*ssa.Function); ok && strings.HasPrefix(n, pre) {
						names = append(names, n)
					}
				}
			} else {
				names = append(names, e)
			}
		}
		sort.Strings(names)
		for _, n := range names {
			fn := sp.Func(n)
			if fn == nil {
				out.Error = fmt.Sprintf("entry %s not found in %s", n, j.Pkg)
				return out
			}
			lim := sx.Limits{MaxSteps: j.MaxSteps, MaxConcretize: j.MaxConc}
			if lim.MaxSteps == 0 {
				lim.MaxSteps = 20_000_000
			}
			if lim.MaxConcretize == 0 {
				lim.MaxConcretize = 64
			}
			c := sx.Config{Workers: workers, Lim: lim, SolverArgv: solver, TimeoutMS: tmo,
				MaxPaths: j.MaxPaths, Witnesses: j.Witness, WantFuncs: true, Verbose: spec.Verbose,
				StopOnViolation: spec.StopOnViolation}
			if j.BudgetS > 0 {
				c.Deadline = time.Now().Add(time.Duration(j.BudgetS) * time.Second)
			}
			if c.Witnesses == 0 {
				c.Witnesses = 4
			}
			s := sx.Explore(P, n, fn, c)
			out.Results = append(out.Results, EntryResult{Pkg: j.Pkg, Entry: n, Summary: s})
			if spec.Verbose {
				fmt.Fprintf(os.Stderr, "%s.%s: paths=%d ok=%d viol=%d inconc=%d asserts=%d queries=%d %.1fs\n",
					j.Pkg, n, s.Paths, s.OK, len(s.Violations), len(s.Inconclusive), s.Asserts, s.Solver.Queries, s.WallS)
			}
		}
	}
	return out
}

func firstFile(p *packages.Package) string {
	if len(p.GoFiles) > 0 {
		return p.GoFiles[0]
	}
	if len(p.CompiledGoFiles) > 0 {
		return p.CompiledGoFiles[0]
	}
	return ""
}


// structTags prints every named struct type of the package in dir with its fields, their types
// and their struct tags, as the type checker sees them in the current source tree. Used by
// generators of tag-driven models (C20): the model is regenerated from /repo on every run.
func structTags(dir string) {
	cfg := &packages.Config{Mode: packages.NeedName | packages.NeedTypes | packages.NeedSyntax | packages.NeedTypesInfo | packages.NeedFiles | packages.NeedImports | packages.NeedDeps, Dir: dir}
	pkgs, err := packages.Load(cfg, ".")
	if err != nil {
		fatal(err)
	}
	if len(pkgs) != 1 || len(pkgs[0].Errors) > 0 {
		fatal(fmt.Errorf("structtags: cannot load %s: %v", dir, pkgs[0].Errors))
	}
	type field struct {
		Name string `json:"name"`
		Type string `json:"type"`
		Tag  string `json:"tag"`
	}
	res := map[string][]field{}
	sc := pkgs[0].Types.Scope()
	for _, n := range sc.Names() {
		tn, ok := sc.Lookup(n).(*types.TypeName)
		if !ok {
			continue
		}
		st, ok := tn.Type().Underlying().(*types.Struct)
		if !ok {
			continue
		}
		fs := []field{}
		for i := 0; i < st.NumFields(); i++ {
			f := st.Field(i)
			fs = append(fs, field{f.Name(), types.TypeString(f.Type(), types.RelativeTo(pkgs[0].Types)), st.Tag(i)})
		}
		res[n] = fs
	}
	enc, _ := json.MarshalIndent(map[string]interface{}{"package": pkgs[0].PkgPath, "structs": res}, "", " ")
	os.Stdout.Write(enc)
	fmt.Println()
}
