package sx

import (
	"fmt"
	"go/types"
	"os"
	"runtime/debug"
	"sort"
	"strings"
	"sync"
	"time"

	"golang.org/x/tools/go/ssa"

	"gosymx/smt"
	"gosymx/term"
)

type Config struct {
	Workers         int
	Lim             Limits
	SolverArgv      []string
	TimeoutMS       int
	MaxPaths        int
	Deadline        time.Time
	Witnesses       int // number of completed paths for which a full model + observations are produced
	StopOnViolation bool
	WantFuncs       bool
	Verbose         bool
}

type Witness struct {
	Decisions []uint64
	Nondets   []NondetVal
	Obs       []ObsVal
	Choices   []int
	Expect    string // "pass" | "assert:<label>" | "panic:..." | ...
}

type NondetVal struct {
	Name  string `json:"name"`
	W     int    `json:"w"`
	Value uint64 `json:"value"`
}

type ObsVal struct {
	Label string `json:"label"`
	Value string `json:"value"`
}

type Summary struct {
	Harness      string
	Paths        int
	OK           int
	Infeasible   int
	Violations   []ViolationRec
	Inconclusive []string
	Steps        int64
	Asserts      int
	AssertsConc  int
	Covers       map[string]int
	Solver       smt.Stats
	Unknowns     int
	Witnesses    []Witness
	Funcs        map[string]int
	WallS        float64
	Truncated    bool
}

type ViolationRec struct {
	Violation
	Witness Witness
}

type work struct {
	prefix []uint64
}

// Explore runs fn over all decision vectors (stateless DFS).
func Explore(p *Program, name string, fn *ssa.Function, cfg Config) *Summary {
	t0 := time.Now()
	sum := &Summary{Harness: name, Covers: map[string]int{}, Funcs: map[string]int{}}
	var mu sync.Mutex
	stack := []work{{nil}}
	active := 0
	cond := sync.NewCond(&mu)
	stop := false

	worker := func(id int) {
		s, err := smt.New(cfg.SolverArgv, cfg.TimeoutMS)
		if err != nil {
			mu.Lock()
			sum.Inconclusive = append(sum.Inconclusive, "cannot start solver: "+err.Error())
			stop = true
			cond.Broadcast()
			mu.Unlock()
			return
		}
		defer s.Close()
		wc := NewWorkerCache()
		for {
			mu.Lock()
			for len(stack) == 0 && active > 0 && !stop {
				cond.Wait()
			}
			if stop || (len(stack) == 0 && active == 0) {
				cond.Broadcast()
				mu.Unlock()
				break
			}
			w := stack[len(stack)-1]
			stack = stack[:len(stack)-1]
			active++
			wantWitness := sum.Paths < cfg.Witnesses || len(sum.Witnesses) < cfg.Witnesses
			mu.Unlock()

			res := runPath(p, s, fn, w.prefix, cfg, wantWitness, wc)

			mu.Lock()
			active--
			sum.Paths++
			sum.Steps += res.Steps
			sum.Asserts += res.Asserts
			sum.AssertsConc += res.AssertsConc
			sum.Unknowns += res.Unknowns
			for c := range res.Covers {
				sum.Covers[c]++
			}
			for f, n := range res.Funcs {
				sum.Funcs[f] += n
			}
			switch res.Status {
			case "ok":
				sum.OK++
				if res.witness != nil && len(sum.Witnesses) < cfg.Witnesses {
					sum.Witnesses = append(sum.Witnesses, *res.witness)
				}
			case "infeasible":
				sum.Infeasible++
			case "violation":
				for i, v := range res.Violations {
					vr := ViolationRec{Violation: v}
					if i < len(res.vwitness) {
						vr.Witness = res.vwitness[i]
					}
					sum.Violations = append(sum.Violations, vr)
				}
				if cfg.StopOnViolation {
					stop = true
				}
			default:
				if len(sum.Inconclusive) < 50 {
					sum.Inconclusive = append(sum.Inconclusive, res.Reason)
				}
			}
			for _, np := range res.NewPrefixes {
				stack = append(stack, work{np})
			}
			if cfg.MaxPaths > 0 && sum.Paths >= cfg.MaxPaths && (len(stack) > 0 || active > 0) {
				sum.Truncated = true
				sum.Inconclusive = append(sum.Inconclusive, fmt.Sprintf("path budget %d exhausted (%d pending)", cfg.MaxPaths, len(stack)))
				stop = true
			}
			if !cfg.Deadline.IsZero() && time.Now().After(cfg.Deadline) && (len(stack) > 0 || active > 0) {
				sum.Truncated = true
				sum.Inconclusive = append(sum.Inconclusive, fmt.Sprintf("time budget exhausted (%d pending)", len(stack)))
				stop = true
			}
			if cfg.Verbose && sum.Paths%200 == 0 {
				fmt.Fprintf(os.Stderr, "  [%s] paths=%d pending=%d viol=%d inconc=%d\n", name, sum.Paths, len(stack), len(sum.Violations), len(sum.Inconclusive))
			}
			sum.Solver.Queries += s.Stats.Queries
			sum.Solver.Sat += s.Stats.Sat
			sum.Solver.Unsat += s.Stats.Unsat
			sum.Solver.Unknown += s.Stats.Unknown
			sum.Solver.Errors += s.Stats.Errors
			sum.Solver.SolverNS += s.Stats.SolverNS
			s.Stats = smt.Stats{}
			cond.Broadcast()
			mu.Unlock()
		}
	}
	var wg sync.WaitGroup
	n := cfg.Workers
	if n < 1 {
		n = 1
	}
	for i := 0; i < n; i++ {
		wg.Add(1)
		go func(id int) {
			defer wg.Done()
			worker(id)
		}(i)
	}
	wg.Wait()
	sum.WallS = time.Since(t0).Seconds()
	return sum
}

type pathOut struct {
	PathResult
	witness  *Witness
	vwitness []Witness
}

func runPath(p *Program, s *smt.Solver, fn *ssa.Function, prefix []uint64, cfg Config, wantWitness bool, wc *WorkerCache) (out *pathOut) {
	s.Reset()
	m := NewMachine(p, s, cfg.Lim, prefix, wc)
	if cfg.WantFuncs {
		m.fcount = map[*fnInfo]int{}
	}
	out = &pathOut{}
	finish := func(status, reason string) {
		out.PathResult = *m.res
		out.Status = status
		out.Reason = reason
		out.Decisions = m.taken
		out.NewPrefixes = m.newPfx
		out.Steps = m.steps
		out.Unknowns = m.unknown
		if m.fcount != nil {
			out.Funcs = make(map[string]int, len(m.fcount))
			for fi, n := range m.fcount {
				out.Funcs[fi.name] = n
			}
		}
		if len(m.res.Violations) > 0 && status != "inconclusive" {
			out.Status = "violation"
			for _, v := range m.res.Violations {
				out.vwitness = append(out.vwitness, m.witnessFrom(v.Model, expectOf(v)))
			}
		}
	}
	defer func() {
		if r := recover(); r != nil {
			if pa, ok := r.(pathAbort); ok {
				switch pa.kind {
				case "done":
					finish("ok", pa.msg)
				case "infeasible":
					finish("infeasible", pa.msg)
				default:
					finish("inconclusive", pa.kind+": "+pa.msg)
				}
				return
			}
			// engine bug: report as inconclusive with stack
			st := string(debug.Stack())
			if len(st) > 3000 {
				st = st[:3000]
			}
			where := "?"
			func() {
				defer func() { recover() }()
				where = m.where()
			}()
			finish("inconclusive", fmt.Sprintf("engine panic: %v at %s\n%s", r, where, st))
		}
	}()
	m.Run(fn, nil)
	if wantWitness {
		if mod, ok := m.currentModel(); ok {
			w := m.witnessFrom(mod, "pass")
			out.witness = &w
		}
	}
	finish("ok", "")
	return out
}

func expectOf(v Violation) string {
	switch v.Kind {
	case "assert":
		return "assert:" + v.Label
	}
	return v.Kind + ":" + v.Label
}

func (m *Machine) witnessFrom(mod map[string]uint64, expect string) Witness {
	w := Witness{Decisions: append([]uint64(nil), m.taken...), Expect: expect, Choices: m.res.Choices}
	for _, nd := range m.res.Nondets {
		w.Nondets = append(w.Nondets, NondetVal{Name: nd.Name, W: nd.W, Value: term.Eval(nd.T, mod)})
	}
	for _, o := range m.res.Obs {
		w.Obs = append(w.Obs, ObsVal{Label: o.Label, Value: renderObs(o.T, o.Val, mod)})
	}
	return w
}

// snapshot deep-copies v following pointers/slices/maps to a bounded depth so
// that later mutation does not change a recorded observation.
func (m *Machine) snapshot(v value, depth int) value {
	if depth > 6 {
		return v
	}
	switch v := v.(type) {
	case []value:
		if v == nil {
			return v
		}
		c := make([]value, len(v))
		for i := range v {
			c[i] = m.snapshot(v[i], depth+1)
		}
		return c
	case structure:
		c := make(structure, len(v))
		for i := range v {
			c[i] = m.snapshot(v[i], depth+1)
		}
		return c
	case array:
		c := make(array, len(v))
		for i := range v {
			c[i] = m.snapshot(v[i], depth+1)
		}
		return c
	case iface:
		return iface{t: v.t, v: m.snapshot(v.v, depth+1)}
	}
	return v
}

// renderObs renders an observed value canonically (mirrored by the native
// replay runtime): integers decimal (signed per type), bools, quoted strings,
// byte slices as hex, other slices/arrays as [a b], structs as {a b},
// pointers as "ptr"/"nil", interfaces by dynamic value, errors as err/nil.
func renderObs(t types.Type, v value, mod map[string]uint64) string {
	var sb strings.Builder
	render(&sb, t, v, mod, 0)
	return sb.String()
}

func render(sb *strings.Builder, t types.Type, v value, mod map[string]uint64, depth int) {
	if depth > 8 {
		sb.WriteString("...")
		return
	}
	var ut types.Type
	if t != nil {
		ut = t.Underlying()
	}
	switch x := v.(type) {
	case nil:
		sb.WriteString("nil")
	case bool:
		fmt.Fprintf(sb, "%v", x)
	case *term.Term:
		val := term.Eval(x, mod)
		if x.W == 0 {
			fmt.Fprintf(sb, "%v", val != 0)
			return
		}
		renderInt(sb, t, val)
	case uint64:
		renderInt(sb, t, x)
	case float64:
		fmt.Fprintf(sb, "%v", x)
	case string:
		fmt.Fprintf(sb, "%q", x)
	case *sstr:
		bs := make([]byte, len(x.b))
		for i, c := range x.b {
			switch c := c.(type) {
			case uint64:
				bs[i] = byte(c)
			case *term.Term:
				bs[i] = byte(term.Eval(c, mod))
			}
		}
		fmt.Fprintf(sb, "%q", string(bs))
	case *tstr:
		sb.WriteString("tstr")
	case []value:
		var et types.Type
		if s, ok := ut.(*types.Slice); ok {
			et = s.Elem()
		}
		if et != nil {
			if w, _, ok := intInfo(et); ok && w == 8 {
				sb.WriteString("x")
				for _, c := range x {
					switch c := c.(type) {
					case uint64:
						fmt.Fprintf(sb, "%02x", c)
					case *term.Term:
						fmt.Fprintf(sb, "%02x", term.Eval(c, mod))
					}
				}
				return
			}
		}
		sb.WriteString("[")
		for i, e := range x {
			if i > 0 {
				sb.WriteString(" ")
			}
			render(sb, et, e, mod, depth+1)
		}
		sb.WriteString("]")
	case array:
		var et types.Type
		if a, ok := ut.(*types.Array); ok {
			et = a.Elem()
		}
		sb.WriteString("[")
		for i, e := range x {
			if i > 0 {
				sb.WriteString(" ")
			}
			render(sb, et, e, mod, depth+1)
		}
		sb.WriteString("]")
	case structure:
		st, _ := ut.(*types.Struct)
		sb.WriteString("{")
		for i, e := range x {
			if i > 0 {
				sb.WriteString(" ")
			}
			var ft types.Type
			if st != nil {
				ft = st.Field(i).Type()
			}
			render(sb, ft, e, mod, depth+1)
		}
		sb.WriteString("}")
	case iface:
		if x.t == nil {
			sb.WriteString("nil")
			return
		}
		if types.Implements(x.t, errorIface) {
			sb.WriteString("err")
			return
		}
		render(sb, x.t, x.v, mod, depth+1)
	case *value:
		if x == nil {
			sb.WriteString("nil")
		} else {
			sb.WriteString("ptr")
		}
	case *mapObj:
		if x == nil {
			sb.WriteString("map(nil)")
		} else {
			fmt.Fprintf(sb, "map(%d)", x.length())
		}
	default:
		fmt.Fprintf(sb, "<%T>", v)
	}
}

var errorIface = types.Universe.Lookup("error").Type().Underlying().(*types.Interface)

func renderInt(sb *strings.Builder, t types.Type, v uint64) {
	if t != nil {
		if w, signed, ok := intInfo(t); ok && signed {
			fmt.Fprintf(sb, "%d", sext(v, w))
			return
		}
	}
	fmt.Fprintf(sb, "%d", v)
}

// SortedKeys is a helper for deterministic output.
func SortedKeys(m map[string]int) []string {
	ks := make([]string, 0, len(m))
	for k := range m {
		ks = append(ks, k)
	}
	sort.Strings(ks)
	return ks
}
