package sx

import (
	"fmt"
	"go/types"
	"net"
	"sort"
	"strconv"
	"strings"

	"golang.org/x/tools/go/ssa"

	"gosymx/term"
)

// intrinsic implements a function natively. handled=false falls through to
// interpreting the function body.
type intrinsic func(m *Machine, fr *frame, fn *ssa.Function, args []value) (res value, handled bool)

var intrinsicsByName = map[string]intrinsic{}

func reg(name string, f intrinsic) { intrinsicsByName[name] = f }

// harness API: matched by bare function name in any package.
var harnessAPI = map[string]intrinsic{}

func recvTypeString(fn *ssa.Function) string {
	if fn.Signature.Recv() == nil {
		return ""
	}
	return fn.Signature.Recv().Type().String()
}

func lookupIntrinsic(fn *ssa.Function, name string) intrinsic {
	i, _ := lookupIntrinsic2(fn, name)
	return i
}

func lookupIntrinsic2(fn *ssa.Function, name string) (intrinsic, bool) {
	if f, ok := intrinsicsByName[name]; ok {
		return f, false
	}
	if fn.Signature.Recv() == nil && fn.Parent() == nil {
		if f, ok := harnessAPI[fn.Name()]; ok && fn.Blocks == nil {
			return f, false
		}
	}
	rt := recvTypeString(fn)
	switch rt {
	case "*github.com/sirupsen/logrus.Entry", "*github.com/sirupsen/logrus.Logger":
		return logrusIntrinsic(fn.Name()), false
	}
	if fn.Pkg != nil {
		switch fn.Pkg.Pkg.Path() {
		case "github.com/davecgh/go-spew/spew", "net/netip", "internal/godebug", "unique", "context", "internal/poll", "os", "internal/singleflight", "internal/nettrace":
			// inert packages: every function returns the zero value of its results, but only while a
			// package initialiser runs (or for spew diagnostics); anywhere else it is unsupported
			path := fn.Pkg.Pkg.Path()
			return inertFn(path), true
		}
	}
	return nil, false
}

func inertFn(path string) intrinsic {
	return func(m *Machine, fr *frame, fn *ssa.Function, args []value) (value, bool) {
		{
			{
				if m.initDepth == 0 && path != "github.com/davecgh/go-spew/spew" {
					m.unsupported("call into un-modelled package: %s", fn.String())
				}
				return zeroResults(fn), true
			}
		}
	}
}

func logrusIntrinsic(name string) intrinsic {
	switch {
	case strings.HasPrefix(name, "With"):
		return func(m *Machine, fr *frame, fn *ssa.Function, args []value) (value, bool) {
			if _, ok := fn.Signature.Results().At(0).Type().(*types.Pointer); ok {
				if strings.HasSuffix(recvTypeString(fn), "Logger") {
					// (*Logger).WithField returns *Entry: give a fresh opaque entry cell
					cell := new(value)
					*cell = zero(deref(fn.Signature.Results().At(0).Type()))
					return cell, true
				}
				return args[0], true
			}
			return zeroResults(fn), true
		}
	case strings.HasPrefix(name, "Fatal"):
		return func(m *Machine, fr *frame, fn *ssa.Function, args []value) (value, bool) {
			m.processExit("logrus." + name)
			return nil, true
		}
	case strings.HasPrefix(name, "Panic"):
		return func(m *Machine, fr *frame, fn *ssa.Function, args []value) (value, bool) {
			panic(targetPanic{iface{t: types.Typ[types.String], v: "logrus panic"}})
		}
	}
	return func(m *Machine, fr *frame, fn *ssa.Function, args []value) (value, bool) {
		return zeroResults(fn), true
	}
}

func (m *Machine) processExit(why string) {
	if m.exitOK {
		panic(pathAbort{"done", "exit: " + why})
	}
	label := "exit: process terminated via " + why
	if m.lastRecovered != "" {
		label += " after panic: " + m.lastRecovered
	}
	m.recordViolationWithModel("exit", label, m.where())
	panic(pathAbort{"done", "exit via " + why})
}

func ret(v value) (value, bool) { return v, true }

// side tables for sync primitives and timers
type syncState struct {
	locked map[*value]int // mutex: 0 free, >0 write-locked, <0 readers
	wg     map[*value]int64
	once   map[*value]bool
	timers []*timerRec
	smaps  map[*value]*mapObj // sync.Map: one ordinary map per object (the executor is sequential)
}

type timerRec struct {
	cell    *value
	fn      value
	stopped bool
	ticker  bool
	ch      *chanObj
	dur     value
}

func (m *Machine) sync() *syncState {
	if m.ss == nil {
		m.ss = &syncState{locked: map[*value]int{}, wg: map[*value]int64{}, once: map[*value]bool{}}
	}
	return m.ss
}

func nilErr() value { return iface{} }

func (m *Machine) mkError(msg string) value {
	// errors.New(msg) interpreted, so the dynamic type is the real *errors.errorString
	pkg := m.P.Prog.ImportedPackage("errors")
	if pkg == nil {
		m.unsupported("package errors not loaded")
	}
	return m.callNested(pkg.Func("New"), []value{msg})
}

// nativeArg converts an interface-boxed interpreted value into a native Go
// value for fmt; ok=false if it is symbolic or not representable.
func (m *Machine) nativeArg(a value) (interface{}, bool) {
	it, isI := a.(iface)
	if !isI {
		return nil, false
	}
	if it.t == nil {
		return nil, true
	}
	// error / Stringer
	if m.inNested < 8 {
		for _, meth := range []string{"Error", "String"} {
			if f := m.lookupMethodByName(it.t, meth); f != nil {
				if f.Signature.Params().Len() == 0 && f.Signature.Results().Len() == 1 && isString(f.Signature.Results().At(0).Type()) {
					if p, ok := it.v.(*value); ok && p == nil {
						return "<nil>", true
					}
					r := m.callValueNested(m.cur, f, []value{it.v})
					s, ok := r.(string)
					if !ok {
						return nil, false
					}
					return s, true
				}
			}
		}
	}
	switch v := it.v.(type) {
	case bool:
		return v, true
	case string:
		return v, true
	case float64:
		return v, true
	case uint64:
		w, signed, ok := intInfo(it.t)
		if !ok {
			return nil, false
		}
		if signed {
			switch w {
			case 8:
				return int8(v), true
			case 16:
				return int16(v), true
			case 32:
				return int32(v), true
			}
			return int64(sext(v, w)), true
		}
		switch w {
		case 8:
			return uint8(v), true
		case 16:
			return uint16(v), true
		case 32:
			return uint32(v), true
		}
		return v, true
	case []value:
		// []byte
		bs := make([]byte, len(v))
		for i, c := range v {
			cv, ok := c.(uint64)
			if !ok {
				return nil, false
			}
			bs[i] = byte(cv)
		}
		return bs, true
	case *value:
		if v == nil {
			return nil, true
		}
		return fmt.Sprintf("&%p", v), true
	case structure, array, *mapObj, iface:
		return "{...}", true
	}
	return nil, false
}

func (m *Machine) lookupMethodByName(t types.Type, name string) *ssa.Function {
	ms := m.P.Prog.MethodSets.MethodSet(t)
	for i := 0; i < ms.Len(); i++ {
		sel := ms.At(i)
		if sel.Obj().Name() == name {
			return m.P.Prog.MethodValue(sel)
		}
	}
	return nil
}

// sprintf formats natively when possible; otherwise returns a tuple string.
func (m *Machine) sprintf(format string, args []value) value {
	if format == "%s-%d" && len(args) == 2 {
		// transaction keys: always an injective tuple so symbolic and concrete keys compare uniformly
		a0, ok := m.nativeArg(args[0])
		if ok {
			var a1 value
			if it, ok := args[1].(iface); ok {
				a1 = it.v
			}
			switch a1.(type) {
			case uint64, *term.Term:
				return &tstr{format: format, args: []value{fmt.Sprint(a0), a1}}
			}
		}
	}
	nat := make([]interface{}, len(args))
	allOK := true
	for i, a := range args {
		v, ok := m.nativeArg(a)
		if !ok {
			allOK = false
			break
		}
		nat[i] = v
	}
	if allOK {
		return fmt.Sprintf(format, nat...)
	}
	// tuple string: every argument that can be formatted natively is rendered now (with its own verb),
	// symbolic integers stay as they are; two such strings of the same format are equal iff their
	// arguments are, and matchFormatted compares one with a concrete string
	verbs := simpleVerbs(format)
	var targs []value
	for i, a := range args {
		if nat, ok := m.nativeArg(a); ok && verbs != nil && i < len(verbs) {
			targs = append(targs, fmt.Sprintf(verbs[i].text, nat))
			continue
		}
		if it, ok := a.(iface); ok {
			targs = append(targs, it.v)
		} else {
			targs = append(targs, a)
		}
	}
	return &tstr{format: "sym:" + format, args: targs}
}

// fmtVerb is one verb of a plain format: %s %v %d %x %X, the integer ones optionally zero-padded to
// a width (%06x).
type fmtVerb struct {
	verb  byte
	zero  bool
	width int
	text  string // the verb as written, e.g. "%06x"
}

// simpleVerbs returns the verbs of a format that uses only such verbs (and %%), else nil.
func simpleVerbs(format string) []fmtVerb {
	var vs []fmtVerb
	for i := 0; i < len(format); i++ {
		if format[i] != '%' {
			continue
		}
		st := i
		i++
		if i >= len(format) {
			return nil
		}
		if format[i] == '%' {
			continue
		}
		v := fmtVerb{}
		if format[i] == '0' {
			v.zero = true
			i++
		}
		for i < len(format) && format[i] >= '0' && format[i] <= '9' {
			v.width = v.width*10 + int(format[i]-'0')
			i++
		}
		if i >= len(format) {
			return nil
		}
		switch format[i] {
		case 's', 'v':
			if v.zero || v.width != 0 {
				return nil
			}
		case 'd', 'x', 'X':
			if v.width != 0 && !v.zero {
				return nil // space padding: not modelled
			}
		default:
			return nil
		}
		v.verb = format[i]
		v.text = format[st : i+1]
		vs = append(vs, v)
	}
	return vs
}

func ifaceSlice(v value) []value {
	if v == nil {
		return nil
	}
	return v.([]value)
}

func (m *Machine) ipFromValue(v value) (net.IP, bool) {
	s, ok := v.([]value)
	if !ok {
		return nil, false
	}
	if s == nil {
		return nil, true
	}
	ip := make(net.IP, len(s))
	for i, c := range s {
		cv, ok := c.(uint64)
		if !ok {
			return nil, false
		}
		ip[i] = byte(cv)
	}
	return ip, true
}

func bytesValue(b []byte) value {
	if b == nil {
		return []value(nil)
	}
	out := make([]value, len(b))
	for i, c := range b {
		out[i] = uint64(c)
	}
	return out
}

func (m *Machine) concBytes(v value, what string) []byte {
	s := v.([]value)
	out := make([]byte, len(s))
	for i, c := range s {
		cv, ok := c.(uint64)
		if !ok {
			m.unsupported("symbolic bytes reach %s", what)
		}
		out[i] = byte(cv)
	}
	return out
}

func init() {
	// ---------- harness API ----------
	nd := func(w int) intrinsic {
		return func(m *Machine, fr *frame, fn *ssa.Function, args []value) (value, bool) {
			name := "x"
			if len(args) > 0 {
				if s, ok := args[0].(string); ok {
					name = s
				}
			}
			return m.fresh(name, w), true
		}
	}
	harnessAPI["nondetU8"] = nd(8)
	harnessAPI["nondetU16"] = nd(16)
	harnessAPI["nondetU32"] = nd(32)
	harnessAPI["nondetU64"] = nd(64)
	harnessAPI["nondetBool"] = nd(0)
	harnessAPI["nondetBytes"] = func(m *Machine, fr *frame, fn *ssa.Function, args []value) (value, bool) {
		name := args[0].(string)
		n := int(args[1].(uint64))
		out := make([]value, n)
		for i := range out {
			out[i] = m.fresh(fmt.Sprintf("%s_%d", name, i), 8)
		}
		return out, true
	}
	harnessAPI["nondetChoice"] = func(m *Machine, fr *frame, fn *ssa.Function, args []value) (value, bool) {
		name := args[0].(string)
		n := int(args[1].(uint64))
		c := m.pureChoice(n)
		m.res.Choices = append(m.res.Choices, c)
		_ = name
		return uint64(c), true
	}
	harnessAPI["zzAssume"] = func(m *Machine, fr *frame, fn *ssa.Function, args []value) (value, bool) {
		m.assume(args[0])
		return nil, true
	}
	harnessAPI["zzAssert"] = func(m *Machine, fr *frame, fn *ssa.Function, args []value) (value, bool) {
		m.assertCond(args[0].(string), args[1], "assert")
		return nil, true
	}
	harnessAPI["zzCover"] = func(m *Machine, fr *frame, fn *ssa.Function, args []value) (value, bool) {
		m.res.Covers[args[0].(string)] = true
		return nil, true
	}
	harnessAPI["zzObserve"] = func(m *Machine, fr *frame, fn *ssa.Function, args []value) (value, bool) {
		v := args[1]
		var t types.Type
		if it, ok := v.(iface); ok {
			v = it.v
			t = it.t
		}
		m.res.Obs = append(m.res.Obs, Observation{Label: args[0].(string), T: t, Val: m.snapshot(v, 0)})
		return nil, true
	}
	harnessAPI["zzYield"] = func(m *Machine, fr *frame, fn *ssa.Function, args []value) (value, bool) {
		if m.inNested > 0 {
			m.unsupported("zzYield in nested call")
		}
		m.cur.status = coYield
		return nil, true
	}
	harnessAPI["zzExpectExit"] = func(m *Machine, fr *frame, fn *ssa.Function, args []value) (value, bool) {
		m.exitOK = true
		return nil, true
	}
	harnessAPI["zzSentCount"] = func(m *Machine, fr *frame, fn *ssa.Function, args []value) (value, bool) {
		return uint64(len(m.udpLog)), true
	}
	harnessAPI["zzSentBytes"] = func(m *Machine, fr *frame, fn *ssa.Function, args []value) (value, bool) {
		i := int(args[0].(uint64))
		d := m.udpLog[i].(tuple)
		b := d[0].([]value)
		out := make([]value, len(b))
		copy(out, b)
		return out, true
	}
	harnessAPI["zzSentAddr"] = func(m *Machine, fr *frame, fn *ssa.Function, args []value) (value, bool) {
		i := int(args[0].(uint64))
		return m.udpLog[i].(tuple)[1], true
	}
	// per-socket views of the datagram log
	onConn := func(m *Machine, c value) []tuple {
		var out []tuple
		for _, d := range m.udpLog {
			t := d.(tuple)
			if t[2] == c {
				out = append(out, t)
			}
		}
		return out
	}
	harnessAPI["zzSentCountOn"] = func(m *Machine, fr *frame, fn *ssa.Function, args []value) (value, bool) {
		return uint64(len(onConn(m, args[0]))), true
	}
	harnessAPI["zzSentBytesOn"] = func(m *Machine, fr *frame, fn *ssa.Function, args []value) (value, bool) {
		d := onConn(m, args[0])[int(args[1].(uint64))]
		b := d[0].([]value)
		out := make([]value, len(b))
		copy(out, b)
		return out, true
	}
	harnessAPI["zzSentAddrOn"] = func(m *Machine, fr *frame, fn *ssa.Function, args []value) (value, bool) {
		return onConn(m, args[0])[int(args[1].(uint64))][1], true
	}
	harnessAPI["zzTimersActive"] = func(m *Machine, fr *frame, fn *ssa.Function, args []value) (value, bool) {
		n := 0
		for _, t := range m.sync().timers {
			if !t.stopped {
				n++
			}
		}
		return uint64(n), true
	}
	// zzFireTimer(t *time.Timer) bool: time passes and the timer expires - if it is armed. The
	// callback of a time.AfterFunc timer runs as a goroutine of its own (as in the runtime), channel
	// timers are not supported here. Afterwards Stop reports false, as for a fired timer.
	// Returns false (and does nothing) for a nil, stopped or already fired timer.
	harnessAPI["zzFireTimer"] = func(m *Machine, fr *frame, fn *ssa.Function, args []value) (value, bool) {
		p, _ := args[0].(*value)
		if p == nil {
			return false, true
		}
		for _, t := range m.sync().timers {
			if t.cell != p || t.stopped || t.ticker {
				continue
			}
			t.stopped = true
			if t.fn != nil {
				nco := m.newCo("timer-callback")
				m.startCall(nco, t.fn, nil)
			} else {
				m.unsupported("zzFireTimer on a channel timer")
			}
			return true, true
		}
		return false, true
	}
	harnessAPI["zzTimersCreated"] = func(m *Machine, fr *frame, fn *ssa.Function, args []value) (value, bool) {
		return uint64(len(m.sync().timers)), true
	}
	harnessAPI["zzTimerDuration"] = func(m *Machine, fr *frame, fn *ssa.Function, args []value) (value, bool) {
		i := int(args[0].(uint64))
		return m.sync().timers[i].dur, true
	}
	harnessAPI["zzSetNow"] = func(m *Machine, fr *frame, fn *ssa.Function, args []value) (value, bool) {
		m.now = int64(args[0].(uint64))
		return nil, true
	}
	harnessAPI["zzGoroutines"] = func(m *Machine, fr *frame, fn *ssa.Function, args []value) (value, bool) {
		n := 0
		for _, co := range m.cos {
			if co.status != coDone && co != m.cur {
				n++
			}
		}
		return uint64(n), true
	}
	harnessAPI["zzTag"] = func(m *Machine, fr *frame, fn *ssa.Function, args []value) (value, bool) {
		m.tag = args[0].(string)
		return nil, true
	}
	harnessAPI["zzTier"] = func(m *Machine, fr *frame, fn *ssa.Function, args []value) (value, bool) {
		return uint64(m.P.Tier), true
	}
	harnessAPI["zzIsSymbolic"] = func(m *Machine, fr *frame, fn *ssa.Function, args []value) (value, bool) {
		return true, true
	}

	// ---------- sync ----------
	lock := func(m *Machine, fr *frame, fn *ssa.Function, args []value) (value, bool) {
		p := args[0].(*value)
		st := m.sync()
		if st.locked[p] != 0 {
			return blockedT{}, true
		}
		st.locked[p] = 1
		return nil, true
	}
	unlock := func(m *Machine, fr *frame, fn *ssa.Function, args []value) (value, bool) {
		p := args[0].(*value)
		st := m.sync()
		if st.locked[p] != 1 {
			panic(targetPanic{iface{t: types.Typ[types.String], v: "sync: unlock of unlocked mutex"}})
		}
		st.locked[p] = 0
		return nil, true
	}
	reg("(*sync.Mutex).Lock", lock)
	reg("(*sync.Mutex).Unlock", unlock)
	reg("(*sync.RWMutex).Lock", lock)
	reg("(*sync.RWMutex).Unlock", unlock)
	reg("(*sync.Mutex).TryLock", func(m *Machine, fr *frame, fn *ssa.Function, args []value) (value, bool) {
		p := args[0].(*value)
		st := m.sync()
		if st.locked[p] != 0 {
			return false, true
		}
		st.locked[p] = 1
		return true, true
	})
	reg("(*sync.RWMutex).RLock", func(m *Machine, fr *frame, fn *ssa.Function, args []value) (value, bool) {
		p := args[0].(*value)
		st := m.sync()
		if st.locked[p] > 0 {
			return blockedT{}, true
		}
		st.locked[p]--
		return nil, true
	})
	reg("(*sync.RWMutex).RUnlock", func(m *Machine, fr *frame, fn *ssa.Function, args []value) (value, bool) {
		p := args[0].(*value)
		st := m.sync()
		if st.locked[p] >= 0 {
			panic(targetPanic{iface{t: types.Typ[types.String], v: "sync: RUnlock of unlocked RWMutex"}})
		}
		st.locked[p]++
		return nil, true
	})
	reg("(*sync.WaitGroup).Add", func(m *Machine, fr *frame, fn *ssa.Function, args []value) (value, bool) {
		p := args[0].(*value)
		st := m.sync()
		st.wg[p] += sext(args[1].(uint64), 64)
		if st.wg[p] < 0 {
			panic(targetPanic{iface{t: types.Typ[types.String], v: "sync: negative WaitGroup counter"}})
		}
		return nil, true
	})
	reg("(*sync.WaitGroup).Done", func(m *Machine, fr *frame, fn *ssa.Function, args []value) (value, bool) {
		p := args[0].(*value)
		st := m.sync()
		st.wg[p]--
		if st.wg[p] < 0 {
			panic(targetPanic{iface{t: types.Typ[types.String], v: "sync: negative WaitGroup counter"}})
		}
		return nil, true
	})
	reg("(*sync.WaitGroup).Wait", func(m *Machine, fr *frame, fn *ssa.Function, args []value) (value, bool) {
		p := args[0].(*value)
		if m.sync().wg[p] > 0 {
			return blockedT{}, true
		}
		return nil, true
	})
	reg("(*sync.Once).Do", func(m *Machine, fr *frame, fn *ssa.Function, args []value) (value, bool) {
		p := args[0].(*value)
		st := m.sync()
		if st.once[p] {
			return nil, true
		}
		st.once[p] = true
		m.callValueNested(m.cur, args[1], nil)
		return nil, true
	})

	// sync.Map: an ordinary map[any]any per object. The executor runs one coroutine at a time and
	// switches only at blocking operations, so the lock-free machinery of the real type has nothing to do.
	smap := func(m *Machine, recv value) *mapObj {
		p := recv.(*value)
		st := m.sync()
		if st.smaps == nil {
			st.smaps = map[*value]*mapObj{}
		}
		mo := st.smaps[p]
		if mo == nil {
			any := types.NewInterfaceType(nil, nil)
			mo = newMap(any, any)
			st.smaps[p] = mo
		}
		return mo
	}
	nilAny := func() value { return iface{} }
	reg("(*sync.Map).Load", func(m *Machine, fr *frame, fn *ssa.Function, args []value) (value, bool) {
		if v, ok := m.mapLookup(smap(m, args[0]), args[1]); ok {
			return tuple{v, true}, true
		}
		return tuple{nilAny(), false}, true
	})
	reg("(*sync.Map).Store", func(m *Machine, fr *frame, fn *ssa.Function, args []value) (value, bool) {
		m.mapInsert(smap(m, args[0]), args[1], args[2])
		return nil, true
	})
	reg("(*sync.Map).LoadOrStore", func(m *Machine, fr *frame, fn *ssa.Function, args []value) (value, bool) {
		mo := smap(m, args[0])
		if v, ok := m.mapLookup(mo, args[1]); ok {
			return tuple{v, true}, true
		}
		m.mapInsert(mo, args[1], args[2])
		return tuple{args[2], false}, true
	})
	reg("(*sync.Map).LoadAndDelete", func(m *Machine, fr *frame, fn *ssa.Function, args []value) (value, bool) {
		mo := smap(m, args[0])
		if v, ok := m.mapLookup(mo, args[1]); ok {
			m.mapDelete(mo, args[1])
			return tuple{v, true}, true
		}
		return tuple{nilAny(), false}, true
	})
	reg("(*sync.Map).Delete", func(m *Machine, fr *frame, fn *ssa.Function, args []value) (value, bool) {
		m.mapDelete(smap(m, args[0]), args[1])
		return nil, true
	})
	reg("(*sync.Map).Range", func(m *Machine, fr *frame, fn *ssa.Function, args []value) (value, bool) {
		mo := smap(m, args[0])
		for _, e := range append([]*mentry{}, mo.entries...) {
			if e.deleted {
				continue
			}
			r := m.callValueNested(m.cur, args[1], []value{e.key, e.val})
			if b, ok := r.(bool); ok && !b {
				break
			} else if !ok {
				m.unsupported("sync.Map.Range callback with a symbolic result")
			}
		}
		return nil, true
	})

	// ---------- fmt / errors ----------
	reg("fmt.Sprintf", func(m *Machine, fr *frame, fn *ssa.Function, args []value) (value, bool) {
		f, ok := args[0].(string)
		if !ok {
			m.unsupported("fmt.Sprintf with symbolic format")
		}
		return m.sprintf(f, ifaceSlice(args[1])), true
	})
	reg("fmt.Sprint", func(m *Machine, fr *frame, fn *ssa.Function, args []value) (value, bool) {
		as := ifaceSlice(args[0])
		f := strings.TrimSpace(strings.Repeat("%v ", len(as)))
		return m.sprintf(f, as), true
	})
	reg("fmt.Sprintln", func(m *Machine, fr *frame, fn *ssa.Function, args []value) (value, bool) {
		as := ifaceSlice(args[0])
		f := strings.TrimSpace(strings.Repeat("%v ", len(as))) + "\n"
		return m.sprintf(f, as), true
	})
	reg("fmt.Errorf", func(m *Machine, fr *frame, fn *ssa.Function, args []value) (value, bool) {
		// diagnostics only: the arguments are not formatted (their String()/Error() methods are not run)
		f, _ := args[0].(string)
		return m.mkError(f), true
	})
	for _, n := range []string{"fmt.Printf", "fmt.Println", "fmt.Print", "fmt.Fprintf", "fmt.Fprintln", "fmt.Fprint"} {
		reg(n, func(m *Machine, fr *frame, fn *ssa.Function, args []value) (value, bool) {
			return tuple{uint64(0), nilErr()}, true
		})
	}
	perr := "github.com/pkg/errors."
	reg(perr+"Errorf", func(m *Machine, fr *frame, fn *ssa.Function, args []value) (value, bool) {
		f, _ := args[0].(string)
		return m.mkError(f), true
	})
	reg(perr+"New", func(m *Machine, fr *frame, fn *ssa.Function, args []value) (value, bool) {
		return m.mkError(m.concreteStr(args[0], "errors.New")), true
	})
	wrap := func(m *Machine, fr *frame, fn *ssa.Function, args []value) (value, bool) {
		e := args[0].(iface)
		if e.t == nil {
			return iface{}, true
		}
		return m.mkError("wrapped error"), true
	}
	reg(perr+"Wrap", wrap)
	reg(perr+"Wrapf", wrap)
	reg(perr+"WithStack", wrap)
	reg(perr+"WithMessage", wrap)
	reg(perr+"WithMessagef", wrap)

	// go-pfcp's informational logger (unknown message type etc.): logging stub, empty body
	reg("github.com/wmnsk/go-pfcp/internal/logger.Logf", func(m *Machine, fr *frame, fn *ssa.Function, args []value) (value, bool) { return nil, true })
	reg("encoding/hex.Dump", func(m *Machine, fr *frame, fn *ssa.Function, args []value) (value, bool) { return "", true })
	reg("runtime/debug.Stack", func(m *Machine, fr *frame, fn *ssa.Function, args []value) (value, bool) {
		return []value(nil), true
	})
	reg("os.Exit", func(m *Machine, fr *frame, fn *ssa.Function, args []value) (value, bool) {
		m.processExit("os.Exit")
		return nil, true
	})
	reg("runtime.KeepAlive", func(m *Machine, fr *frame, fn *ssa.Function, args []value) (value, bool) { return nil, true })
	reg("runtime.SetFinalizer", func(m *Machine, fr *frame, fn *ssa.Function, args []value) (value, bool) { return nil, true })
	reg("runtime.Gosched", func(m *Machine, fr *frame, fn *ssa.Function, args []value) (value, bool) {
		if m.inNested == 0 {
			m.cur.status = coYield
		}
		return nil, true
	})

	// ---------- bytealg & friends ----------
	idxByte := func(m *Machine, cells []value, c value) value {
		// first index i with cells[i]==c else -1; symbolic -> fork per position
		for i, x := range cells {
			if m.branch(m.equals(nil, x, c)) {
				return uint64(i)
			}
		}
		return uint64(0xFFFFFFFFFFFFFFFF)
	}
	reg("internal/bytealg.IndexByte", func(m *Machine, fr *frame, fn *ssa.Function, args []value) (value, bool) {
		return idxByte(m, args[0].([]value), args[1]), true
	})
	reg("internal/bytealg.IndexByteString", func(m *Machine, fr *frame, fn *ssa.Function, args []value) (value, bool) {
		if s, ok := args[0].(string); ok {
			if c, ok := args[1].(uint64); ok {
				return uint64(int64(strings.IndexByte(s, byte(c)))), true
			}
		}
		return idxByte(m, m.strCells(args[0]), args[1]), true
	})
	reg("internal/bytealg.Equal", func(m *Machine, fr *frame, fn *ssa.Function, args []value) (value, bool) {
		a, b := args[0].([]value), args[1].([]value)
		if len(a) != len(b) {
			return false, true
		}
		var acc value = true
		for i := range a {
			acc = m.and(acc, m.equals(nil, a[i], b[i]))
		}
		return acc, true
	})
	reg("bytes.Equal", intrinsicsByName["internal/bytealg.Equal"])
	cnt := func(m *Machine, cells []value, c value) value {
		n := uint64(0)
		for _, x := range cells {
			if m.branch(m.equals(nil, x, c)) {
				n++
			}
		}
		return n
	}
	reg("internal/bytealg.Count", func(m *Machine, fr *frame, fn *ssa.Function, args []value) (value, bool) {
		return cnt(m, args[0].([]value), args[1]), true
	})
	reg("internal/bytealg.CountString", func(m *Machine, fr *frame, fn *ssa.Function, args []value) (value, bool) {
		return cnt(m, m.strCells(args[0]), args[1]), true
	})
	reg("internal/bytealg.MakeNoZero", func(m *Machine, fr *frame, fn *ssa.Function, args []value) (value, bool) {
		n := int(args[0].(uint64))
		out := make([]value, n)
		for i := range out {
			out[i] = uint64(0)
		}
		return out, true
	})
	reg("internal/bytealg.IndexString", func(m *Machine, fr *frame, fn *ssa.Function, args []value) (value, bool) {
		a, ok1 := args[0].(string)
		b, ok2 := args[1].(string)
		if ok1 && ok2 {
			return uint64(int64(strings.Index(a, b))), true
		}
		// generic: try each offset
		ca, cb := m.strCells(args[0]), m.strCells(args[1])
		for i := 0; i+len(cb) <= len(ca); i++ {
			var acc value = true
			for j := range cb {
				acc = m.and(acc, m.equals(nil, ca[i+j], cb[j]))
			}
			if m.branch(acc) {
				return uint64(i), true
			}
		}
		return uint64(0xFFFFFFFFFFFFFFFF), true
	})
	reg("strings.Index", intrinsicsByName["internal/bytealg.IndexString"])
	reg("(*strings.Builder).String", func(m *Machine, fr *frame, fn *ssa.Function, args []value) (value, bool) {
		p := args[0].(*value)
		st := (*p).(structure)
		// Builder{addr *Builder; buf []byte}
		buf := st[1].([]value)
		return m.mkStr(buf), true
	})
	reg("(*strings.Builder).copyCheck", func(m *Machine, fr *frame, fn *ssa.Function, args []value) (value, bool) { return nil, true })
	reg("strings.Clone", func(m *Machine, fr *frame, fn *ssa.Function, args []value) (value, bool) { return args[0], true })
	reg("internal/stringslite.Clone", func(m *Machine, fr *frame, fn *ssa.Function, args []value) (value, bool) { return args[0], true })
	reg("strconv.Itoa", func(m *Machine, fr *frame, fn *ssa.Function, args []value) (value, bool) {
		switch v := args[0].(type) {
		case uint64:
			return strconv.Itoa(int(int64(v))), true
		case *term.Term:
			// a symbolic number that cannot be negative is written like an unsigned one
			if _, hi := term.URange(v); hi < 1<<63 {
				return &tstr{format: "sym:%d", args: []value{v}}, true
			}
		}
		m.unsupported("strconv.Itoa of a symbolic value that may be negative")
		return nil, true
	})
	fmtInt := func(signed bool) intrinsic {
		return func(m *Machine, fr *frame, fn *ssa.Function, args []value) (value, bool) {
			base, ok := args[1].(uint64)
			if !ok {
				m.unsupported("strconv.Format(U)int with a symbolic base")
			}
			switch v := args[0].(type) {
			case uint64:
				if signed {
					return strconv.FormatInt(int64(v), int(int64(base))), true
				}
				return strconv.FormatUint(v, int(int64(base))), true
			case *term.Term:
				if signed {
					if _, hi := term.URange(v); hi >= 1<<63 {
						m.unsupported("strconv.FormatInt of a symbolic value that may be negative")
					}
				}
				switch base {
				case 10:
					return &tstr{format: "sym:%d", args: []value{v}}, true
				case 16:
					return &tstr{format: "sym:%x", args: []value{v}}, true
				}
				m.unsupported("strconv.Format(U)int of a symbolic value in base %d", base)
			}
			return nil, false
		}
	}
	reg("strconv.FormatUint", fmtInt(false))
	reg("strconv.FormatInt", fmtInt(true))
	reg("strconv.Quote", func(m *Machine, fr *frame, fn *ssa.Function, args []value) (value, bool) {
		s, ok := args[0].(string)
		if !ok {
			return "\"<symbolic>\"", true
		}
		return strconv.Quote(s), true
	})
	reg("strconv.cloneString", func(m *Machine, fr *frame, fn *ssa.Function, args []value) (value, bool) { return args[0], true })

	reg("sort.Slice", func(m *Machine, fr *frame, fn *ssa.Function, args []value) (value, bool) {
		s := args[0].(iface).v.([]value)
		less := args[1]
		idx := make([]int, len(s))
		for i := range idx {
			idx[i] = i
		}
		// insertion sort calling the interpreted less on the live slice (stable, deterministic)
		for i := 1; i < len(s); i++ {
			for j := i; j > 0; j-- {
				r := m.callValueNested(m.cur, less, []value{uint64(j), uint64(j - 1)})
				if !m.branch(r) {
					break
				}
				s[j], s[j-1] = s[j-1], s[j]
			}
		}
		return nil, true
	})
	_ = sort.Ints

	// ---------- net ----------
	reg("(*net.UDPAddr).String", func(m *Machine, fr *frame, fn *ssa.Function, args []value) (value, bool) {
		p := args[0].(*value)
		if p == nil {
			return "<nil>", true
		}
		st := (*p).(structure)
		ip, ok := m.ipFromValue(st[0])
		port, ok2 := st[1].(uint64)
		if !ok || !ok2 {
			m.unsupported("(*net.UDPAddr).String on symbolic address")
		}
		a := &net.UDPAddr{IP: ip, Port: int(int64(port))}
		return a.String(), true
	})
	reg("(*net.UDPAddr).Network", func(m *Machine, fr *frame, fn *ssa.Function, args []value) (value, bool) { return "udp", true })
	reg("(*net.IPAddr).String", func(m *Machine, fr *frame, fn *ssa.Function, args []value) (value, bool) {
		p := args[0].(*value)
		if p == nil {
			return "<nil>", true
		}
		st := (*p).(structure)
		ip, ok := m.ipFromValue(st[0])
		if !ok {
			m.unsupported("(*net.IPAddr).String on symbolic address")
		}
		return (&net.IPAddr{IP: ip}).String(), true
	})
	reg("(net.IP).String", func(m *Machine, fr *frame, fn *ssa.Function, args []value) (value, bool) {
		ip, ok := m.ipFromValue(args[0])
		if ok {
			return ip.String(), true
		}
		// symbolic IPv4 address: an injective tuple string (dotted quad is injective in the 4 octets)
		cells := args[0].([]value)
		if len(cells) == 16 {
			pre := []byte{0, 0, 0, 0, 0, 0, 0, 0, 0, 0, 0xff, 0xff}
			for i, b := range pre {
				if c, isC := cells[i].(uint64); !isC || byte(c) != b {
					m.unsupported("(net.IP).String on symbolic IPv6 address")
				}
			}
			cells = cells[12:]
		}
		if len(cells) != 4 {
			m.unsupported("(net.IP).String on symbolic address of length %d", len(cells))
		}
		return &tstr{format: "ip4", args: []value{cells[0], cells[1], cells[2], cells[3]}}, true
	})
	mkUDPAddr := func(m *Machine, a *net.UDPAddr) value {
		cell := new(value)
		*cell = structure{bytesValue(a.IP), uint64(a.Port), a.Zone}
		return cell
	}
	reg("net.ResolveUDPAddr", func(m *Machine, fr *frame, fn *ssa.Function, args []value) (value, bool) {
		network := m.concreteStr(args[0], "net.ResolveUDPAddr")
		addr := m.concreteStr(args[1], "net.ResolveUDPAddr")
		host, _, err := net.SplitHostPort(addr)
		if err == nil && host != "" && net.ParseIP(host) == nil {
			// no DNS in the model
			return tuple{(*value)(nil), m.mkError("lookup " + host + ": no such host (DNS not modelled)")}, true
		}
		a, err := net.ResolveUDPAddr(network, addr)
		if err != nil {
			return tuple{(*value)(nil), m.mkError(err.Error())}, true
		}
		return tuple{mkUDPAddr(m, a), nilErr()}, true
	})
	reg("net.ResolveIPAddr", func(m *Machine, fr *frame, fn *ssa.Function, args []value) (value, bool) {
		network := m.concreteStr(args[0], "net.ResolveIPAddr")
		addr := m.concreteStr(args[1], "net.ResolveIPAddr")
		if net.ParseIP(addr) == nil {
			return tuple{(*value)(nil), m.mkError("lookup " + addr + ": no such host (DNS not modelled)")}, true
		}
		a, err := net.ResolveIPAddr(network, addr)
		if err != nil {
			return tuple{(*value)(nil), m.mkError(err.Error())}, true
		}
		cell := new(value)
		*cell = structure{bytesValue(a.IP), a.Zone}
		return tuple{cell, nilErr()}, true
	})
	reg("net.ListenUDP", func(m *Machine, fr *frame, fn *ssa.Function, args []value) (value, bool) {
		cell := new(value)
		*cell = zero(deref(fn.Signature.Results().At(0).Type()))
		return tuple{cell, nilErr()}, true
	})
	reg("(*net.UDPConn).WriteTo", func(m *Machine, fr *frame, fn *ssa.Function, args []value) (value, bool) {
		b := args[1].([]value)
		// the one send failure that is modelled: the sockets of the native environments are bound to
		// loop-back addresses, and the kernel refuses to send from such a socket to 192.0.2.9 (TEST-NET-1:
		// EINVAL, or ENETUNREACH inside a private network namespace). Natively reproducible, so a harness
		// can exercise the "first write fails" paths. Everything else is delivered.
		if it, ok := args[2].(iface); ok {
			if p, ok := it.v.(*value); ok && p != nil {
				if st, ok := (*p).(structure); ok && len(st) > 0 {
					if ip, ok := m.ipFromValue(st[0]); ok && ip.Equal(net.IPv4(192, 0, 2, 9)) {
						return tuple{uint64(0), m.mkError("sendto: network is unreachable")}, true
					}
				}
			}
		}
		cp := make([]value, len(b))
		copy(cp, b)
		m.udpLog = append(m.udpLog, tuple{cp, args[2], args[0]})
		return tuple{uint64(len(b)), nilErr()}, true
	})
	reg("(*net.UDPConn).ReadFrom", func(m *Machine, fr *frame, fn *ssa.Function, args []value) (value, bool) {
		// blocks until the socket is closed or nothing else can run, then fails (socket closed)
		co := m.cur
		if !co.idleWoken && !m.connClosed {
			co.status = coIdleWait
			return blockedT{}, true
		}
		co.idleWoken = false
		return tuple{uint64(0), iface{}, m.mkError("use of closed network connection")}, true
	})
	reg("(*net.UDPConn).Close", func(m *Machine, fr *frame, fn *ssa.Function, args []value) (value, bool) {
		m.connClosed = true
		for _, co := range m.cos {
			if co.status == coIdleWait {
				co.idleWoken = true
				co.status = coReady
			}
		}
		return nilErr(), true
	})
	reg("(*net.conn).Close", intrinsicsByName["(*net.UDPConn).Close"])
	reg("github.com/khirono/go-nl.IfnameToIndex", func(m *Machine, fr *frame, fn *ssa.Function, args []value) (value, bool) {
		return tuple{uint64(7), nilErr()}, true
	})
	reg("net.ParseCIDR", func(m *Machine, fr *frame, fn *ssa.Function, args []value) (value, bool) {
		s, ok := args[0].(string)
		if !ok {
			return nil, false // symbolic: needs a Go-source model (spec "models")
		}
		ip, ipn, err := net.ParseCIDR(s)
		if err != nil {
			return tuple{[]value(nil), (*value)(nil), m.mkError(err.Error())}, true
		}
		cell := new(value)
		*cell = structure{bytesValue(ipn.IP), bytesValue(ipn.Mask)}
		return tuple{bytesValue(ip), cell, nilErr()}, true
	})
	for _, n := range []string{"log.Printf", "log.Println", "log.Print"} {
		reg(n, func(m *Machine, fr *frame, fn *ssa.Function, args []value) (value, bool) { return nil, true })
	}
	reg("net.ParseIP", func(m *Machine, fr *frame, fn *ssa.Function, args []value) (value, bool) {
		if t, ok := args[0].(*tstr); ok && t.format == "ip4" {
			out := make([]value, 16)
			for i := 0; i < 10; i++ {
				out[i] = uint64(0)
			}
			out[10], out[11] = uint64(0xff), uint64(0xff)
			copy(out[12:], t.args)
			return out, true
		}
		s, ok := args[0].(string)
		if !ok {
			return nil, false // fall through to model / body
		}
		return bytesValue(net.ParseIP(s)), true
	})

	// ---------- time ----------
	reg("time.now", func(m *Machine, fr *frame, fn *ssa.Function, args []value) (value, bool) {
		return tuple{uint64(m.nowSec()), uint64(0), uint64(0)}, true
	})
	reg("time.runtimeNano", func(m *Machine, fr *frame, fn *ssa.Function, args []value) (value, bool) {
		return uint64(0), true
	})
	reg("time.Sleep", func(m *Machine, fr *frame, fn *ssa.Function, args []value) (value, bool) {
		if m.inNested == 0 {
			m.cur.status = coYield
		}
		return nil, true
	})
	reg("time.AfterFunc", func(m *Machine, fr *frame, fn *ssa.Function, args []value) (value, bool) {
		cell := new(value)
		*cell = zero(deref(fn.Signature.Results().At(0).Type()))
		st := m.sync()
		st.timers = append(st.timers, &timerRec{cell: cell, fn: args[1], dur: args[0]})
		return cell, true
	})
	reg("time.NewTimer", func(m *Machine, fr *frame, fn *ssa.Function, args []value) (value, bool) {
		cell := new(value)
		*cell = zero(deref(fn.Signature.Results().At(0).Type()))
		ch := &chanObj{cap: 1}
		(*cell).(structure)[0] = ch
		st := m.sync()
		st.timers = append(st.timers, &timerRec{cell: cell, ch: ch, dur: args[0]})
		return cell, true
	})
	reg("time.NewTicker", func(m *Machine, fr *frame, fn *ssa.Function, args []value) (value, bool) {
		d := args[0]
		if dv, ok := d.(uint64); ok && int64(dv) <= 0 {
			panic(targetPanic{iface{t: types.Typ[types.String], v: "non-positive interval for NewTicker"}})
		}
		cell := new(value)
		*cell = zero(deref(fn.Signature.Results().At(0).Type()))
		ch := &chanObj{cap: 1}
		(*cell).(structure)[0] = ch
		st := m.sync()
		st.timers = append(st.timers, &timerRec{cell: cell, ch: ch, dur: d, ticker: true})
		return cell, true
	})
	stop := func(m *Machine, fr *frame, fn *ssa.Function, args []value) (value, bool) {
		p := args[0].(*value)
		if p == nil {
			m.rtPanic("invalid memory address or nil pointer dereference")
		}
		was := false
		for _, t := range m.sync().timers {
			if t.cell == p {
				was = !t.stopped
				t.stopped = true
			}
		}
		if fn.Signature.Results().Len() == 0 {
			return nil, true
		}
		return was, true
	}
	reg("(*time.Timer).Stop", stop)
	reg("(*time.Ticker).Stop", stop)
	reg("(*time.Timer).Reset", func(m *Machine, fr *frame, fn *ssa.Function, args []value) (value, bool) {
		p := args[0].(*value)
		was := false
		for _, t := range m.sync().timers {
			if t.cell == p {
				was = !t.stopped
				t.stopped = false
				t.dur = args[1]
			}
		}
		return was, true
	})
}

func (m *Machine) nowSec() int64 {
	if m.now == 0 {
		return 1790812800 // 2026-10-01T00:00:00Z
	}
	return m.now
}

func init() {
	// reflectlite is only reached from package initialisers (errors.errorType);
	// give it an inert type value.
	reg("internal/reflectlite.TypeOf", func(m *Machine, fr *frame, fn *ssa.Function, args []value) (value, bool) {
		pkg := m.P.Prog.ImportedPackage("internal/reflectlite")
		rt := pkg.Type("rtype").Object().Type()
		return iface{t: rt, v: structure{(*value)(nil)}}, true
	})
	reg("(internal/reflectlite.rtype).Elem", func(m *Machine, fr *frame, fn *ssa.Function, args []value) (value, bool) {
		pkg := m.P.Prog.ImportedPackage("internal/reflectlite")
		rt := pkg.Type("rtype").Object().Type()
		return iface{t: rt, v: structure{(*value)(nil)}}, true
	})
}

func init() {
	le := func(m *Machine, fr *frame, fn *ssa.Function, args []value) (value, bool) {
		pkg := m.P.Prog.ImportedPackage("encoding/binary")
		t := pkg.Type("littleEndian").Object().Type()
		return iface{t: t, v: structure{}}, true
	}
	// amd64 byte order (assumption recorded in the evidence)
	reg("github.com/khirono/go-nl.NativeEndian", le)
	reg("github.com/khirono/go-genl.NativeEndian", le)
	reg("github.com/free5gc/go-gtp5gnl.NativeEndian", le)
	reg("github.com/khirono/go-rtnllink.NativeEndian", le)
	reg("github.com/khirono/go-rtnlroute.NativeEndian", le)
}
