//go:build verif

package perio

import (
	"io"
	"runtime"
	"time"

	"github.com/free5gc/go-upf/internal/logger"
)

func init() { logger.Log.SetOutput(io.Discard) }

func zzYield()            { runtime.Gosched(); time.Sleep(3 * time.Millisecond) }
func zzGoroutines() int   { return -1 }
func zzTimersActive() int { return -1 }
