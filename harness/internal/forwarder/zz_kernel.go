//go:build verif

package forwarder

import (
	"strconv"

	"github.com/khirono/go-nl"

	"github.com/free5gc/go-gtp5gnl"
	"github.com/free5gc/go-upf/internal/forwarder/buffnetlink"
	"github.com/free5gc/go-upf/internal/forwarder/perio"
	"github.com/free5gc/go-upf/internal/logger"
)

// Simulated gtp5g kernel at the netlink level (DESIGN.md section 5): sits behind
// nl.DoHook (overlay of go-nl), keeps every request's bytes, answers with what the harness says.

type zzReq struct {
	typ   uint16
	flags uint16
	b     []byte // genl header (4 bytes) + attributes
}

type zzKernel struct {
	reqs  []zzReq
	reply func(k *zzKernel, r zzReq) ([]nl.Msg, error)
}

var zzK *zzKernel

func zzInstallKernel() *zzKernel {
	k := &zzKernel{}
	zzK = k
	nl.DoHook = func(req *nl.Request) ([]nl.Msg, error) {
		var b []byte
		for _, x := range req.Bufs {
			b = append(b, x...)
		}
		r := zzReq{typ: req.Header.Type, flags: req.Header.Flags, b: b}
		k.reqs = append(k.reqs, r)
		if k.reply != nil {
			return k.reply(k, r)
		}
		return nil, nil
	}
	return k
}

const zzFamilyID = 33

// zzGtp5g builds a driver instance on the simulated kernel.
func zzGtp5g(linkIndex uint32) *Gtp5g {
	return &Gtp5g{
		client:   &gtp5gnl.Client{Client: &nl.Client{}, ID: zzFamilyID},
		psClient: &gtp5gnl.Client{Client: &nl.Client{}, ID: zzFamilyID},
		link:     &Gtp5gLink{link: &gtp5gnl.Link{Index: int(linkIndex)}, conn: zzGTPConn()},
		bsnl:     &buffnetlink.Server{},
		ps:       zzPerio(),
		log:      logger.FwderLog,
	}
}

var zzPS *perio.Server

func zzLE16(b []byte) int { return int(b[0]) | int(b[1])<<8 }

// zzWalk checks attribute type, nesting and width of every attribute in b against the golden table.
func zzWalk(kind string, path string, b []byte, tag string) {
	for len(b) > 0 {
		zzAssert("nl.attr.header-fits."+tag, len(b) >= 4)
		if len(b) < 4 {
			return
		}
		alen := zzLE16(b[0:2])
		raw := zzLE16(b[2:4])
		typ := raw & 0x3fff
		nestedFlag := raw&0x8000 != 0
		zzAssert("nl.attr.length-fits."+tag, alen >= 4 && alen <= len(b))
		if alen < 4 || alen > len(b) {
			return
		}
		key := path + strconv.Itoa(typ)
		nested, plen, known := zzWidth(kind + ":" + key)
		zzAssert("nl.attr.known-type."+tag+"."+kind+":"+key, known)
		if known {
			zzAssert("nl.attr.nested-flag."+tag+"."+kind+":"+key, nestedFlag == nested)
			switch {
			case plen >= 0:
				zzAssert("nl.attr.width."+tag+"."+kind+":"+key, alen-4 == plen)
			case plen == -2:
				zzAssert("nl.attr.width."+tag+"."+kind+":"+key, alen-4 == 4 || alen-4 == 16)
			case plen == -3:
				zzAssert("nl.attr.width."+tag+"."+kind+":"+key, (alen-4)%4 == 0)
			}
			if nested {
				zzWalk(kind, key+"/", b[4:alen], tag)
			}
		}
		adv := (alen + 3) &^ 3
		if adv > len(b) {
			adv = len(b)
		}
		b = b[adv:]
	}
}

// zzFindAttr returns the payload of the n-th (0-based) attribute of type typ at the top level of b.
func zzFindAttr(b []byte, typ int, n int) ([]byte, bool) {
	for len(b) >= 4 {
		alen := zzLE16(b[0:2])
		t := zzLE16(b[2:4]) & 0x3fff
		if alen < 4 || alen > len(b) {
			return nil, false
		}
		if t == typ {
			if n == 0 {
				return b[4:alen], true
			}
			n--
		}
		adv := (alen + 3) &^ 3
		if adv > len(b) {
			adv = len(b)
		}
		b = b[adv:]
	}
	return nil, false
}

func zzCountAttr(b []byte, typ int) int {
	n := 0
	for len(b) >= 4 {
		alen := zzLE16(b[0:2])
		t := zzLE16(b[2:4]) & 0x3fff
		if alen < 4 || alen > len(b) {
			return n
		}
		if t == typ {
			n++
		}
		adv := (alen + 3) &^ 3
		if adv > len(b) {
			adv = len(b)
		}
		b = b[adv:]
	}
	return n
}

func zzBE16(b []byte) uint16 { return uint16(b[0])<<8 | uint16(b[1]) }
func zzBE32(b []byte) uint32 {
	return uint32(b[0])<<24 | uint32(b[1])<<16 | uint32(b[2])<<8 | uint32(b[3])
}
func zzBE64(b []byte) uint64 { return uint64(zzBE32(b[0:4]))<<32 | uint64(zzBE32(b[4:8])) }
func zzBE40(b []byte) uint64 {
	return uint64(b[0])<<32 | uint64(zzBE32(b[1:5]))
}
func zzLE32(b []byte) uint32 {
	return uint32(b[0]) | uint32(b[1])<<8 | uint32(b[2])<<16 | uint32(b[3])<<24
}
func zzLE64(b []byte) uint64 { return uint64(zzLE32(b[0:4])) | uint64(zzLE32(b[4:8]))<<32 }

// zzOneReq asserts exactly one new request with the golden command/flags for op and returns its attributes.
func zzOneReq(k *zzKernel, from int, op string, tag string) ([]byte, bool) {
	zzAssert("nl.one-request."+tag, len(k.reqs) == from+1)
	if len(k.reqs) != from+1 {
		return nil, false
	}
	r := k.reqs[from]
	cmd, flags, known := zzOp(op)
	zzAssert("nl.op-known."+tag, known)
	zzAssert("nl.family."+tag, r.typ == zzFamilyID)
	zzAssert("nl.flags."+tag, r.flags == flags)
	zzAssert("nl.genl-header."+tag, len(r.b) >= 4)
	if len(r.b) < 4 {
		return nil, false
	}
	zzAssert("nl.genl-cmd."+tag, r.b[0] == cmd)
	return r.b[4:], true
}

// zzPerm returns the p-th permutation of 0..n-1 (n <= 4) in lexicographic order.
func zzPerm(n, p int) []int {
	idx := []int{0, 1, 2, 3}[:n]
	out := make([]int, 0, n)
	f := 1
	for i := 2; i < n; i++ {
		f *= i
	}
	for i := n; i >= 1; i-- {
		k := p / f
		p = p % f
		out = append(out, idx[k])
		idx = append(idx[:k:k], idx[k+1:]...)
		if i > 1 {
			f /= (i - 1)
		}
	}
	return out
}
