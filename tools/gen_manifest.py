#!/usr/bin/env python3
"""Writes MANIFEST.json from tools/checks.py + tools/manifest_meta.py."""
import json, os, sys
V = os.path.dirname(os.path.dirname(os.path.abspath(__file__)))
sys.path.insert(0, os.path.join(V, "tools"))
import checks as CH, manifest_meta as MM
props = [json.loads(l)["id"] for l in open(os.path.join(V, "properties.jsonl"))]
checks = []
for p in props:
    if p not in CH.CHECKS or p not in MM.META:
        continue
    m = MM.META[p]
    checks.append({
        "property_id": p,
        "quick_cmd": f"./check {p} quick",
        "thorough_cmd": f"./check {p} thorough",
        "evidence_file": f"evidence/{p}.json",
        "replay_cmd_template": "./check --replay {path}",
        "engine": "gosymx",
        "level_claimed": {"category": "model_checking", "text": m["text"], "design_ref": m["design_ref"]},
        "level_note": m["note"],
        "technique": m.get("technique", "bounded symbolic execution of the real Go SSA (gosymx) with z3 deciding every branch and assertion; counterexamples replayed natively"),
    })
na = [{"property_id": p, "reason": MM.NOT_APPLICABLE.get(p, "check not built yet (engine extension in progress); see DESIGN.md section 6")} for p in props if p not in {c["property_id"] for c in checks}]
man = {
    "version": 1,
    "setup_cmd": "cd /verif/engine && GOFLAGS=-mod=mod GOPROXY=off GOSUMDB=off GOTOOLCHAIN=local go build -o ../bin/gosymx ./cmd/gosymx && GOFLAGS=-mod=mod GOPROXY=off GOSUMDB=off GOTOOLCHAIN=local go test -short -count=1 ./term ./smt ./sx",
    "hooks": {"guard": "verif", "enable": "harness and stub files live under /verif/harness and /verif/overlays and are injected by go/packages Overlay (engine) and go test -overlay (native replay) with -tags verif; nothing is committed to /repo",
              "baseline_off_cmd": "cd /repo && go test -vet=off -count=1 ./...", "source_commits": [], "add_only": True},
    "engines": [{"name": "gosymx", "path": "engine", "serves_properties": [c["property_id"] for c in checks],
                 "kind_free_text": "own Go SSA -> SMT-LIB2 bounded symbolic executor (go/packages + go/ssa over /repo's working tree on every run; stateless DFS over decision vectors; z3 -in incremental); native replay of solver models through go test -overlay"}],
    "checks": checks,
    "notes": "Exit code 2 = inconclusive (solver unknown, unsupported construct, replay mismatch): never a pass, never a VIOLATION line. known_findings.json lists genuine defects (open = KNOWN-FINDING lines, fixed = repaired by a fix: commit in /repo).",
    "not_applicable": na,
}
json.dump(man, open(os.path.join(V, "MANIFEST.json"), "w"), indent=1)
print("checks:", [c["property_id"] for c in checks], "n/a:", [x["property_id"] for x in na])
