//go:build verif

package factory

import (
	"strconv"
	"strings"
	"time"
)

// C20, which configuration documents are accepted. A valid reference document is perturbed by up
// to N field faults chosen by the solver (field x kind: deleted, emptied, replaced by an invalid or
// out-of-range value, mistyped); ReadConfig must accept the result iff the property's definition
// of a valid configuration (zzSpecAccepts, written from the statement, not from the tags) says so,
// and an accepted configuration carries the document's values unchanged.
//
// Engine: os.ReadFile is a stub, yaml.Unmarshal is a model that fills Config from the same fault
// description (zzDocDecode), govalidator.ValidateStruct is the model GENERATED from the struct tags
// in the working tree (tools/gen_c20.py). Native replay: the document is rendered as YAML text into
// a temporary file and goes through the real ReadConfig (real yaml.v2, real govalidator).

const (
	zzFVersion = iota
	zzFPfcp
	zzFPfcpAddr
	zzFNodeID
	zzFTimeout
	zzFMaxRetrans
	zzFGtpu
	zzFForwarder
	zzFIfList
	zzFIfAddr
	zzFIfType
	zzFIfMTU
	zzFDnnList
	zzFDnn
	zzFCidr
	zzFLogger
	zzFLevel
	zzNF
)

var zzFieldName = [zzNF]string{"version", "pfcp", "pfcp.addr", "pfcp.nodeID", "pfcp.retransTimeout", "pfcp.maxRetrans", "gtpu", "gtpu.forwarder",
	"gtpu.ifList", "ifList.addr", "ifList.type", "ifList.mtu", "dnnList", "dnnList.dnn", "dnnList.cidr", "logger", "logger.level"}

// fault kinds
const (
	zzNone     = iota
	zzDeleted  // key absent
	zzEmptied  // key present with the empty value of its type ("", 0, 0s, null section, [])
	zzInvalid  // well-typed but not allowed (wrong version, not a host, bad CIDR, unknown level, 300 for uint8, -1 for mtu)
	zzMistyped // wrong YAML node kind or unparsable scalar
	zzAltValid // another allowed value (N9 for N3, debug for info; for the two address fields the other two
	// syntactic classes of a host: a DNS name for the interface address, an IPv6 literal for the PFCP
	// listen address - the same text that is NOT acceptable as node id, so that two faults can put
	// one unresolvable value into both fields)
	zzNearMiss // an invalid value that begins or ends like a valid one (N39, gtp5gx, 10.60.0.0/16x); for the
	// node id: an IPv6 literal, which is a well-formed host but has no IPv4 address to resolve to
	zzNearMiss2 // the other kind of near miss: a valid value with something in FRONT of it (xinfo, xN3, xgtp5g)
	zzPadded    // a valid value with a blank behind it, quoted so that YAML keeps the blank ("10.60.0.0/16 ");
	// for the numeric fields the quoted text is not a number (a decoding error); the DNN name has no
	// syntax to violate, there the kind is just another name
	zzNK
)

var zzKindName = [zzNK]string{"ok", "deleted", "emptied", "invalid", "mistyped", "alt-valid", "near-miss", "near-miss-prefix", "padded"}

type zzDoc struct {
	k [zzNF]int
	// second: the interface and DNN entries described by k come second in their lists, behind an
	// entry without any fault ("well-formed interface ENTRIES", "DNN ENTRIES with valid CIDRs")
	second bool
}

// zzScalar: the YAML text of a scalar field under fault kind k; "" + false = key absent.
func zzScalar(f, k int) (string, bool) {
	good := [zzNF]string{zzFVersion: "1.0.3", zzFPfcpAddr: "127.0.0.8", zzFNodeID: "127.0.0.8", zzFTimeout: "3s", zzFMaxRetrans: "3",
		zzFForwarder: "gtp5g", zzFIfAddr: "127.0.0.8", zzFIfType: "N3", zzFIfMTU: "1400", zzFDnn: "internet", zzFCidr: "10.60.0.0/16", zzFLevel: "info"}
	bad := [zzNF]string{zzFVersion: "1.0.0", zzFPfcpAddr: `"no host!"`, zzFNodeID: `"no host!"`, zzFTimeout: "0s", zzFMaxRetrans: "300",
		zzFForwarder: "other", zzFIfAddr: `"no host!"`, zzFIfType: "N6", zzFIfMTU: "-1", zzFDnn: `""`, zzFCidr: "10.60.0.0/33", zzFLevel: "verbose"}
	alt := [zzNF]string{zzFVersion: "1.0.3", zzFPfcpAddr: `"::1"`, zzFNodeID: "127.0.0.9", zzFTimeout: "1500ms", zzFMaxRetrans: "255",
		zzFForwarder: "gtp5g", zzFIfAddr: "upf.free5gc.org", zzFIfType: "N9", zzFIfMTU: "9000", zzFDnn: "ims", zzFCidr: "10.61.0.0/24", zzFLevel: "debug"}
	near := [zzNF]string{zzFVersion: "1.0.3x", zzFPfcpAddr: "127.0.0.8/24", zzFNodeID: `"::1"`, zzFTimeout: "0s", zzFMaxRetrans: "300",
		zzFForwarder: "gtp5gx", zzFIfAddr: "127.0.0.8/24", zzFIfType: "N39", zzFIfMTU: "-1", zzFDnn: `""`, zzFCidr: "10.60.0.0/16x", zzFLevel: "infox"}
	if k == zzNearMiss {
		return near[f], true
	}
	if k == zzPadded {
		if f == zzFDnn {
			return "internet2", true
		}
		return `"` + good[f] + ` "`, true
	}
	if k == zzNearMiss2 {
		near2 := near
		near2[zzFVersion], near2[zzFForwarder], near2[zzFIfType], near2[zzFLevel], near2[zzFCidr] = "x1.0.3", "xgtp5g", "xN3", "xinfo", "x10.60.0.0/16"
		return near2[f], true
	}
	empty := `""`
	switch f {
	case zzFTimeout:
		empty = "0s"
	case zzFMaxRetrans, zzFIfMTU:
		empty = "0"
	}
	switch k {
	case zzNone:
		return good[f], true
	case zzDeleted:
		return "", false
	case zzEmptied:
		return empty, true
	case zzInvalid:
		return bad[f], true
	case zzMistyped:
		if f == zzFTimeout || f == zzFMaxRetrans || f == zzFIfMTU {
			return "abc", true
		}
		return "[1, 2]", true
	}
	return alt[f], true
}

func zzUnquote(s string) string {
	if len(s) >= 2 && s[0] == '"' {
		return s[1 : len(s)-1]
	}
	return s
}

// zzRender: the document as YAML text.
func (d *zzDoc) render() string {
	var sb strings.Builder
	kv := func(indent, key string, f int) {
		if s, ok := zzScalar(f, d.k[f]); ok {
			sb.WriteString(indent + key + ": " + s + "\n")
		}
	}
	section := func(key string, f int, body func()) {
		switch d.k[f] {
		case zzDeleted:
		case zzEmptied:
			sb.WriteString(key + ":\n")
		case zzInvalid, zzMistyped, zzNearMiss, zzNearMiss2, zzPadded:
			sb.WriteString(key + ": 5\n")
		default:
			sb.WriteString(key + ":\n")
			body()
		}
	}
	kv("", "version", zzFVersion)
	sb.WriteString("description: UPF configuration\n")
	section("pfcp", zzFPfcp, func() {
		kv("  ", "addr", zzFPfcpAddr)
		kv("  ", "nodeID", zzFNodeID)
		kv("  ", "retransTimeout", zzFTimeout)
		kv("  ", "maxRetrans", zzFMaxRetrans)
	})
	section("gtpu", zzFGtpu, func() {
		kv("  ", "forwarder", zzFForwarder)
		switch d.k[zzFIfList] {
		case zzDeleted:
		case zzEmptied:
			sb.WriteString("  ifList: []\n")
		case zzInvalid, zzMistyped, zzNearMiss, zzNearMiss2, zzPadded:
			sb.WriteString("  ifList: 5\n")
		default:
			sb.WriteString("  ifList:\n")
			if d.second {
				sb.WriteString("    - name: n3a.upf\n      addr: 127.0.0.9\n      type: N3\n      mtu: 1400\n")
			}
			sb.WriteString("    - name: n3.upf\n")
			kv("      ", "addr", zzFIfAddr)
			kv("      ", "type", zzFIfType)
			kv("      ", "mtu", zzFIfMTU)
		}
	})
	switch d.k[zzFDnnList] {
	case zzDeleted:
	case zzEmptied:
		sb.WriteString("dnnList: []\n")
	case zzInvalid, zzMistyped, zzNearMiss, zzNearMiss2, zzPadded:
		sb.WriteString("dnnList: 5\n")
	default:
		sb.WriteString("dnnList:\n")
		if d.second {
			sb.WriteString("  - natifname: eth1\n    dnn: first\n    cidr: 10.61.0.0/24\n")
		}
		sb.WriteString("  - natifname: eth0\n")
		kv("    ", "dnn", zzFDnn)
		kv("    ", "cidr", zzFCidr)
	}
	section("logger", zzFLogger, func() {
		sb.WriteString("  enable: true\n")
		kv("  ", "level", zzFLevel)
	})
	return sb.String()
}

// zzDocDecode: what a YAML decoder makes of the document (the engine's model of yaml.Unmarshal);
// false = the decoder reports an error.
func (d *zzDoc) decode(c *Config) bool {
	str := func(f int) (string, bool) {
		if d.k[f] == zzMistyped {
			return "", false
		}
		s, ok := zzScalar(f, d.k[f])
		if !ok {
			return "", true
		}
		return zzUnquote(s), true
	}
	num := func(f int, max int64) (int64, bool) {
		if d.k[f] == zzMistyped {
			return 0, false
		}
		s, ok := zzScalar(f, d.k[f])
		if !ok {
			return 0, true
		}
		n, err := strconv.ParseInt(s, 10, 64)
		if err != nil || n < 0 || n > max {
			return 0, false
		}
		return n, true
	}
	var ok bool
	if c.Version, ok = str(zzFVersion); !ok {
		return false
	}
	c.Description = "UPF configuration"
	switch d.k[zzFPfcp] {
	case zzDeleted, zzEmptied:
	case zzInvalid, zzMistyped, zzNearMiss, zzNearMiss2, zzPadded:
		return false
	default:
		p := &Pfcp{}
		if p.Addr, ok = str(zzFPfcpAddr); !ok {
			return false
		}
		if p.NodeID, ok = str(zzFNodeID); !ok {
			return false
		}
		switch d.k[zzFTimeout] {
		case zzNone:
			p.RetransTimeout = 3 * time.Second
		case zzAltValid:
			p.RetransTimeout = 1500 * time.Millisecond
		case zzMistyped, zzPadded:
			return false
		}
		n, ok := num(zzFMaxRetrans, 255)
		if !ok {
			return false
		}
		p.MaxRetrans = uint8(n)
		c.Pfcp = p
	}
	switch d.k[zzFGtpu] {
	case zzDeleted, zzEmptied:
	case zzInvalid, zzMistyped, zzNearMiss, zzNearMiss2, zzPadded:
		return false
	default:
		g := &Gtpu{}
		if g.Forwarder, ok = str(zzFForwarder); !ok {
			return false
		}
		switch d.k[zzFIfList] {
		case zzDeleted:
		case zzEmptied:
			g.IfList = []IfInfo{}
		case zzInvalid, zzMistyped, zzNearMiss, zzNearMiss2, zzPadded:
			return false
		default:
			i := IfInfo{Name: "n3.upf"}
			if i.Addr, ok = str(zzFIfAddr); !ok {
				return false
			}
			if i.Type, ok = str(zzFIfType); !ok {
				return false
			}
			n, ok := num(zzFIfMTU, 0xffffffff)
			if !ok {
				return false
			}
			i.MTU = uint32(n)
			g.IfList = []IfInfo{i}
			if d.second {
				g.IfList = []IfInfo{{Name: "n3a.upf", Addr: "127.0.0.9", Type: "N3", MTU: 1400}, i}
			}
		}
		c.Gtpu = g
	}
	switch d.k[zzFDnnList] {
	case zzDeleted:
	case zzEmptied:
		c.DnnList = []DnnList{}
	case zzInvalid, zzMistyped, zzNearMiss, zzNearMiss2, zzPadded:
		return false
	default:
		e := DnnList{NatIfName: "eth0"}
		if e.Dnn, ok = str(zzFDnn); !ok {
			return false
		}
		if e.Cidr, ok = str(zzFCidr); !ok {
			return false
		}
		c.DnnList = []DnnList{e}
		if d.second {
			c.DnnList = []DnnList{{NatIfName: "eth1", Dnn: "first", Cidr: "10.61.0.0/24"}, e}
		}
	}
	switch d.k[zzFLogger] {
	case zzDeleted, zzEmptied:
	case zzInvalid, zzMistyped, zzNearMiss, zzNearMiss2, zzPadded:
		return false
	default:
		l := &Logger{Enable: true}
		if l.Level, ok = str(zzFLevel); !ok {
			return false
		}
		c.Logger = l
	}
	return true
}

// zzSpecAccepts: the property's definition. "A configuration file is accepted only if it has the
// supported version, a PFCP listen address and resolvable node id, a retransmission timeout, the
// gtp5g forwarder with well-formed interface entries, DNN entries with valid CIDRs and a valid log
// level; every other file yields an error." Optional by that definition: maxRetrans, the interface
// list as a whole (an absent or empty list has no ill-formed entry; that a forwarder cannot start
// without an interface is decided by ZZ_C20_NewDriver), mtu. A document that is not well-typed YAML
// for the configuration is "every other file".
func (d *zzDoc) specAccepts() bool {
	inside := func(f, section int) bool { // is field f rendered at all?
		return d.k[section] == zzNone || d.k[section] == zzAltValid
	}
	for f := 0; f < zzNF; f++ {
		k := d.k[f]
		if k == zzNone || k == zzAltValid || (f == zzFDnn && k == zzPadded) {
			continue
		}
		switch f {
		case zzFPfcpAddr, zzFNodeID, zzFTimeout, zzFMaxRetrans:
			if !inside(f, zzFPfcp) {
				continue
			}
		case zzFForwarder, zzFIfList:
			if !inside(f, zzFGtpu) {
				continue
			}
		case zzFIfAddr, zzFIfType, zzFIfMTU:
			if !inside(f, zzFGtpu) || !inside(f, zzFIfList) {
				continue
			}
		case zzFDnn, zzFCidr:
			if !inside(f, zzFDnnList) {
				continue
			}
		case zzFLevel:
			if !inside(f, zzFLogger) {
				continue
			}
		}
		switch {
		case (f == zzFMaxRetrans || f == zzFIfMTU) && (k == zzDeleted || k == zzEmptied):
		case f == zzFIfList && (k == zzDeleted || k == zzEmptied):
		default:
			return false
		}
	}
	return true
}

func (d *zzDoc) tag() string {
	s := ""
	for f := 0; f < zzNF; f++ {
		if d.k[f] != zzNone {
			s += " " + zzFieldName[f] + "=" + zzKindName[d.k[f]]
		}
	}
	if d.second {
		s += " (list entries second, behind a good one)"
	}
	if s == "" {
		return "document: reference"
	}
	return "document:" + s
}

func zzC20Document(nfaults int) {
	var d zzDoc
	last := -1
	for i := 0; i < nfaults; i++ {
		// faults on strictly increasing field numbers; choosing zzNF means "no further fault"
		f := last + 1 + nondetChoice("field", zzNF-last)
		if f >= zzNF {
			break
		}
		d.k[f] = 1 + nondetChoice("kind", zzNK-1)
		last = f
	}
	entryFault := false
	for _, f := range []int{zzFIfAddr, zzFIfType, zzFIfMTU, zzFDnn, zzFCidr} {
		if d.k[f] != zzNone {
			entryFault = true
		}
	}
	if entryFault || last < 0 {
		d.second = nondetBool("list-entries-second")
	}
	zzTag(d.tag())
	path := zzPutDoc(&d)
	cfg, err := ReadConfig(path)
	zzDoneDoc(path)
	want := d.specAccepts()
	zzAssert("C20.document.accepted-iff-valid", (err == nil) == want)
	zzAssert("C20.document.no-partial-config", (cfg != nil) == (err == nil))
	if err == nil && cfg != nil {
		var ref Config
		d.decode(&ref)
		same := cfg.Version == ref.Version && cfg.Pfcp != nil && ref.Pfcp != nil && *cfg.Pfcp == *ref.Pfcp &&
			cfg.Gtpu != nil && ref.Gtpu != nil && cfg.Gtpu.Forwarder == ref.Gtpu.Forwarder && len(cfg.Gtpu.IfList) == len(ref.Gtpu.IfList) &&
			len(cfg.DnnList) == len(ref.DnnList) && cfg.Logger != nil && ref.Logger != nil && *cfg.Logger == *ref.Logger
		if same {
			for i := range cfg.Gtpu.IfList {
				same = same && cfg.Gtpu.IfList[i] == ref.Gtpu.IfList[i]
			}
			for i := range cfg.DnnList {
				same = same && cfg.DnnList[i] == ref.DnnList[i]
			}
		}
		zzAssert("C20.document.values-unchanged", same)
		zzCover("C20.document.accepted")
	} else {
		zzCover("C20.document.rejected")
	}
}

func ZZ_C20_Document() { zzC20Document(2 + zzTier()) }
