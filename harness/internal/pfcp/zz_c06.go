//go:build verif

package pfcp

import (
	"net"
	"sync"

	"github.com/wmnsk/go-pfcp/ie"
	"github.com/wmnsk/go-pfcp/message"
)

// C06: retransmitted requests are executed at most once and re-answered identically.
// The real event loop (PfcpServer.main + receiver) runs as a coroutine; the harness feeds
// datagrams and retention-timer expiries one at a time in every order (all merges of the
// queues) and lets the loop run to quiescence after each.

type zzLoop struct {
	*zzWorld
	wg sync.WaitGroup
}

func zzStartLoop(faults bool) *zzLoop {
	l := &zzLoop{zzWorld: zzNewWorld(zzFAR, faults)}
	zzTrack(l.s)
	l.s.Start(&l.wg)
	zzYield()
	return l
}

func (l *zzLoop) stop() {
	l.s.Stop()
	zzYield()
}

// feed delivers one datagram and runs the loop to quiescence.
func (l *zzLoop) feed(b []byte, from net.Addr) {
	buf := make([]byte, len(b))
	copy(buf, b)
	l.s.rcvCh <- ReceivePacket{RemoteAddr: from, Buf: buf}
	zzYield()
}


type zzEffects struct {
	sessions, nodes, calls, sent, rx int
}

func (l *zzLoop) effects() zzEffects {
	return zzEffects{
		sessions: len(l.s.lnode.sess) - len(l.s.lnode.free),
		nodes:    len(l.s.rnodes),
		calls:    len(l.dp.calls),
		sent:     zzSentCount(),
		rx:       len(l.s.rxTrans),
	}
}

type zzTemplate struct {
	kind int
	src  int
	seq  uint32
	b    []byte
	// ghost: retention state of this template's key
	seen bool
	rsp  []byte
	has  bool
	id   string // the implementation's own id of this key's transaction, once one has existed
	hasID bool
}

func zzMkTemplate(name string) *zzTemplate {
	t := &zzTemplate{}
	t.kind = nondetChoice(name+"-kind", 5)
	t.src = nondetChoice(name+"-src", 3) // peer A, peer B, or another endpoint on A's host
	t.seq = zzSeq24(name + "-seq")
	var m message.Message
	switch t.kind {
	case 0:
		m = zzHbReq(t.seq)
	case 1:
		m = zzAssocReq(t.seq, zzNodeID(t.src&1))
	case 2:
		m = zzEstReq(t.seq, ie.NewNodeID(zzNodeID(t.src&1), "", ""), ie.NewFSEID(0x77, []byte{127, 0, 0, 1}, nil), ie.NewCreateFAR(ie.NewFARID(1), ie.NewApplyAction(2)))
	case 3:
		m = zzDelReq(1, t.seq)
	case 4:
		m = zzEstReq(t.seq, ie.NewFSEID(0x78, []byte{127, 0, 0, 1}, nil)) // no Node ID: never answered
	}
	b := make([]byte, m.MarshalLen())
	if err := m.MarshalTo(b); err != nil {
		zzAssume(false)
	}
	t.b = b
	return t
}

func zzSameBytes(a, b []byte) bool {
	if len(a) != len(b) {
		return false
	}
	for i := range a {
		if a[i] != b[i] {
			return false
		}
	}
	return true
}

func zzC06(depth int) {
	l := zzStartLoop(false)
	// prefix: both peers associated, one session of peer A (so that Deletion has something to delete)
	l.feed(zzMarshal(zzAssocReq(0xfffff0, zzNodeA)), zzAddrA)
	l.feed(zzMarshal(zzAssocReq(0xfffff1, zzNodeB)), zzAddrB)
	l.feed(zzMarshal(zzEstReq(0xfffff2, ie.NewNodeID(zzNodeA, "", ""), ie.NewFSEID(0x70, []byte{127, 0, 0, 1}, nil), ie.NewCreateFAR(ie.NewFARID(9), ie.NewApplyAction(2)))), zzAddrA)
	zzAssert("C06.prefix", zzSentCount() == 3 && len(l.s.rxTrans) == 3)
	tm := [2]*zzTemplate{zzMkTemplate("t0"), zzMkTemplate("t1")}
	// sequence numbers of the prefix are reserved
	for _, t := range tm {
		zzAssume(t.seq < 0xfffff0)
	}
	sameKey := tm[0].src == tm[1].src && tm[0].seq == tm[1].seq
	if sameKey {
		// equal (source, sequence): by the protocol the second is a retransmission of the first,
		// whatever it carries; make the two templates one
		tm[1] = tm[0]
		zzCover("C06.same-key")
	}
	for step := 0; step < depth; step++ {
		ev := nondetChoice("event", 4)
		t := tm[ev&1]
		before := l.effects()
		if ev < 2 {
			l.feed(t.b, zzAddr(t.src))
			after := l.effects()
			if t.seen {
				// a retransmission within the retention window: no effect, identical answer (or none)
				zzAssert("C06.dup.not-executed", after.sessions == before.sessions && after.nodes == before.nodes && after.calls == before.calls)
				zzAssert("C06.dup.bookkeeping-kept", after.rx == before.rx)
				if t.has {
					zzAssert("C06.dup.answered-once", after.sent == before.sent+1)
					if after.sent == before.sent+1 {
						zzAssert("C06.dup.identical-response", zzSameBytes(zzSentBytes(before.sent), t.rsp))
						zzAssert("C06.dup.to-requester", zzSentAddr(before.sent).String() == zzAddr(t.src).String())
					}
				} else {
					zzAssert("C06.dup.ignored", after.sent == before.sent)
				}
				zzCover("C06.dup")
			} else {
				// first copy (or first after the window elapsed): executed
				zzAssert("C06.first.bookkeeping-created", after.rx == before.rx+1)
				if rx := zzFindRx(l.s, zzAddr(t.src), t.seq); rx != nil {
					t.id, t.hasID = rx.id, true
				}
				t.seen = true
				t.has = after.sent == before.sent+1
				zzAssert("C06.first.at-most-one-response", after.sent <= before.sent+1)
				if t.has {
					t.rsp = zzSentBytes(before.sent)
					h := zzParseHdr(t.rsp)
					zzAssert("C06.first.response-echoes-seq", h.ok && h.seq == t.seq)
				}
				switch t.kind {
				case 0, 1, 2, 3:
					zzAssert("C06.first.answered", t.has)
				case 4:
					zzAssert("C06.first.unanswerable", !t.has)
				}
				if t.kind == 2 {
					zzAssert("C06.first.executed", after.sessions == before.sessions+1 && after.calls == before.calls+1)
				}
				zzCover("C06.first")
			}
		} else {
			// time passes: the retention timer of this key fires - if the code armed one. A timer that
			// was never armed (or was stopped) cannot fire, so the expiry is injected only then.
			rx := zzFindRx(l.s, zzAddr(t.src), t.seq)
			armed := rx != nil && rx.timer != nil
			if armed {
				zzFireTimer(rx.timer) // the real timer: its callback posts the timeout under the real id
				zzYield()
			} else if !t.seen && t.hasID {
				// a stale expiry: the callback of an earlier transaction of this key, already on its way
				l.s.NotifyTransTimeout(RX, t.id)
				zzYield()
			}
			after := l.effects()
			zzAssert("C06.expiry.no-side-effect", after.sessions == before.sessions && after.nodes == before.nodes && after.calls == before.calls && after.sent == before.sent)
			if t.seen {
				zzAssert("C06.expiry.retention-timer-armed", armed)
				zzAssert("C06.expiry.bookkeeping-released", after.rx == before.rx-1)
				zzCover("C06.expiry")
			} else {
				zzAssert("C06.expiry.unknown-key-ignored", after.rx == before.rx)
			}
			t.seen, t.has, t.rsp = false, false, nil
		}
	}
	l.stop()
	if zzTimersActive() >= 0 {
		zzAssert("C06.stop.timers-stopped", zzTimersActive() == 0)
		zzAssert("C06.stop.goroutines-ended", zzGoroutines() == 0)
	}
	zzCover("C06.done")
}

// retention = timeout x (retries + 1)
func zzC06Retention() {
	l := &zzLoop{zzWorld: zzNewWorld(zzFAR, false)}
	r := nondetU8("maxretrans")
	l.s.cfg.Pfcp.MaxRetrans = r
	k := nondetChoice("timeout", 3)
	to := []int64{1e6, 3e9, 7200e9}[k]
	l.s.cfg.Pfcp.RetransTimeout = zzDuration(to)
	rx := NewRxTransaction(l.s, zzAddrA, 5)
	zzAssert("C06.retention.value", int64(rx.timeout) == to*(int64(r)+1))
	zzCover("C06.retention.done")
}

func ZZ_C06_Loop()      { zzC06(3 + zzTier()) }
func ZZ_C06_Retention() { zzC06Retention() }

// A request that could not be answered when it first arrived (Establishment naming a node that is
// not associated yet) is still "seen": a duplicate of it within the retention window is ignored
// even if it could be answered by now, because the node has associated in the meantime. After the
// window (the retention timer fires) the same octets are a new request and are executed.
func zzC06UnansweredThenAnswerable() {
	l := zzStartLoop(false)
	l.feed(zzMarshal(zzAssocReq(0xfffff0, zzNodeA)), zzAddrA)
	s1 := zzSeq24("seq-est")
	s2 := zzSeq24("seq-assoc")
	zzAssume(s1 < 0xfffff0 && s2 < 0xfffff0)
	src := nondetChoice("est-source", 2) // the establishment comes from A or from B's address
	if src == 1 {
		zzAssume(s1 != s2)
	}
	est := zzMarshal(zzEstReq(s1, ie.NewNodeID(zzNodeB, "", ""), ie.NewFSEID(0x70, []byte{127, 0, 0, 2}, nil), ie.NewCreateFAR(ie.NewFARID(9), ie.NewApplyAction(2))))
	before := l.effects()
	l.feed(est, zzAddr(src))
	after := l.effects()
	zzAssert("C06.unanswered.first-copy-unanswered", after.sent == before.sent && after.sessions == before.sessions && after.calls == before.calls)
	zzAssert("C06.unanswered.first-copy-seen", after.rx == before.rx+1)
	// node B associates
	l.feed(zzMarshal(zzAssocReq(s2, zzNodeB)), zzAddrB)
	mid := l.effects()
	zzAssert("C06.unanswered.association-accepted", mid.sent == after.sent+1 && mid.nodes == after.nodes+1)
	// the duplicate, 0..2 times
	for i := 0; i < 1+nondetChoice("copies", 2); i++ {
		l.feed(est, zzAddr(src))
		d := l.effects()
		zzAssert("C06.unanswered.duplicate-not-executed", d.sessions == mid.sessions && d.calls == mid.calls && d.nodes == mid.nodes)
		zzAssert("C06.unanswered.duplicate-ignored", d.sent == mid.sent)
		zzAssert("C06.unanswered.bookkeeping-kept", d.rx == mid.rx)
	}
	// the window elapses
	rx := zzFindRx(l.s, zzAddr(src), s1)
	zzAssert("C06.unanswered.still-retained", rx != nil)
	if rx != nil {
		zzAssert("C06.unanswered.retention-timer-armed", zzFireTimer(rx.timer))
		zzYield()
		e := l.effects()
		zzAssert("C06.unanswered.released-after-window", e.rx == mid.rx-1)
		// the same octets are now a new request: executed and answered
		l.feed(est, zzAddr(src))
		f := l.effects()
		zzAssert("C06.unanswered.after-window-executed", f.sessions == mid.sessions+1 && f.sent == mid.sent+1)
	}
	l.stop()
	zzCover("C06.unanswered.done")
}

func ZZ_C06_UnansweredThenAnswerable() { zzC06UnansweredThenAnswerable() }
