"""Registry of checks: which harness entries decide which property, at which bounds."""

NL_OVERLAYS = {}

CHECKS = {}

CHECKS["C14"] = {
    "jobs": {
        "quick": [{"pkg": "internal/gtpv1", "entries": ["ZZ_C14_Quick"], "witnesses": 6}],
        "thorough": [{"pkg": "internal/gtpv1", "entries": ["ZZ_C14_Quick", "ZZ_C14_Thorough"], "witnesses": 16}],
    },
    "covers": {"quick": ["ZZ_C14_Quick:C14.done"], "thorough": ["ZZ_C14_Quick:C14.done", "ZZ_C14_Thorough:C14.done"]},
    "bounds": {
        "quick": "payload length 0..16, with/without PDU session container; QFI (assumed < 64), PDU type (< 16), TEID (32 bit) and every payload byte symbolic",
        "thorough": "payload length 0..64 plus 1400 and 1500, with/without extension; same symbolic inputs",
    },
    "outside": "flag combinations other than 0x34; payloads above 65527 bytes (length field wraps); more than one extension header",
    "assumptions": ["QFI < 64 and PDU type < 16 (the ranges the property quantifies over)",
                    "reference decoder in the harness transcribed from TS 29.281 5.1/5.2.1 and TS 38.415 5.5.2"],
}

CHECKS["C19"] = {
    "jobs": {
        "quick": [{"pkg": "internal/report", "entries": ["ZZ_C19_*"], "witnesses": 4}],
        "thorough": [{"pkg": "internal/report", "entries": ["ZZ_C19_*"], "witnesses": 16}],
    },
    "covers": {"all": ["ZZ_C19_ApplyAction:C19.aa.done", "ZZ_C19_ApplyAction:C19.aa.short", "ZZ_C19_ReportingTrigger:C19.rt.done",
                       "ZZ_C19_ReportingTrigger:C19.rt.short", "ZZ_C19_UsageReportTriggerIE:C19.ut.done",
                       "ZZ_C19_SetReportingTrigger:C19.set.done", "ZZ_C19_VolumeMeasure:C19.vm.setflags.done",
                       "ZZ_C19_VolumeMeasureIE:C19.vm.ie.done"]},
    "bounds": {
        "quick": "Apply Action IE length 0..2, Reporting Triggers length 0..3, all octets symbolic; Usage Report Trigger flags 32-bit symbolic; reporting cause 32-bit symbolic; Volume Measurement flags 6-bit symbolic with six 64-bit symbolic counters. Complete over octet values within these lengths.",
        "thorough": "same (the quick bound is already complete over all octet values)",
    },
    "outside": "Apply Action IEs longer than 2 octets and Reporting Triggers longer than 3 octets (later releases); Usage Report Trigger decode (go-upf only encodes it)",
    "assumptions": ["oracle = spec/ts29244_flags.json, transcribed by hand from TS 29.244 8.2.26/8.2.19/8.2.41/8.2.13; tools/gen_c19.py turns it into assertions",
                    "'same name' is literal: REEMR has no same-named usage-report trigger and must map to nothing"],
}
