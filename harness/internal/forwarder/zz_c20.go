//go:build verif

package forwarder

import (
	"sync"

	"github.com/khirono/go-nl"

	"github.com/free5gc/go-gtp5gnl"
	"github.com/free5gc/go-upf/pkg/factory"
)

// C20 (the part the solver can reach): the forwarder starts only against a gtp5g module whose
// version v satisfies 0.9.5 <= v < 0.10.0; NewDriver opens exactly what the configuration says.

func zzC20Version() {
	k := zzInstallKernel()
	g := zzGtp5g(7)
	// X.Y.Z with 1-2 digits per field
	var f [3]zzNum
	s := ""
	for i := 0; i < 3; i++ {
		f[i] = zzDigits("field", 1+nondetChoice("digits", 2))
		if i > 0 {
			s += "."
		}
		s += f[i].str()
	}
	if nondetChoice("v-prefix", 2) == 1 {
		s = "v" + s
	}
	zzObserve("version", s)
	k.reply = func(k *zzKernel, r zzReq) ([]nl.Msg, error) {
		zzAssert("C20.version.request", len(r.b) >= 1 && r.b[0] == gtp5gnl.CMD_GET_VERSION)
		body := append([]byte{0, 0, 0, 0}, zzEncAttrs(nl.AttrList{{Type: 1, Value: nl.AttrString(s)}})...)
		return []nl.Msg{{Header: nl.Header{Type: zzFamilyID, Pid: 1}, Body: body}}, nil
	}
	err := g.checkVersion()
	// the window of the property, hard-wired: 0.9.5 <= (X,Y,Z) < 0.10.0
	x, y, z := f[0].val(), f[1].val(), f[2].val()
	want := x == 0 && y == 9 && z >= 5
	zzAssert("C20.version.accepted-iff-in-window", (err == nil) == want)
	if want {
		zzCover("C20.version.accepted")
	} else {
		zzCover("C20.version.rejected")
	}
}

// kernel unreachable / malformed answers -> error, never "compatible"
func zzC20VersionFaults() {
	k := zzInstallKernel()
	g := zzGtp5g(7)
	how := nondetChoice("how", 3)
	k.reply = func(k *zzKernel, r zzReq) ([]nl.Msg, error) {
		switch how {
		case 0:
			return nil, errZZNoEnt
		case 1:
			return nil, nil // no message
		}
		body := append([]byte{0, 0, 0, 0}, zzEncAttrs(nl.AttrList{{Type: 1, Value: nl.AttrString("x.y")}})...)
		return []nl.Msg{{Header: nl.Header{Type: zzFamilyID, Pid: 1}, Body: body}}, nil
	}
	zzAssert("C20.version.fault-is-error", g.checkVersion() != nil)
	zzCover("C20.version.faults.done")
}

// ---- driver selection (OpenGtp5g replaced by a recording model in the engine) ----

type zzOpenRec struct {
	addr string
	mtu  uint32
}

var zzOpens []zzOpenRec
var zzOpenFails bool

func zzModelOpenGtp5g(wg *sync.WaitGroup, addr string, mtu uint32) (*Gtp5g, error) {
	zzOpens = append(zzOpens, zzOpenRec{addr, mtu})
	if zzOpenFails {
		return nil, errZZNoEnt
	}
	g := zzGtp5g(7)
	g.link.link.Name = "upfgtp"
	g.link.client = &nl.Client{}
	return g, nil
}

func zzC20NewDriver() {
	k := zzInstallKernel()
	shape := nondetChoice("shape", 5)
	zzOpenFails = nondetChoice("open-fails", 2) == 1
	cfg := &factory.Config{}
	mtu := nondetU32("mtu")
	switch shape {
	case 0: // no gtpu section
	case 1:
		cfg.Gtpu = &factory.Gtpu{Forwarder: "other", IfList: []factory.IfInfo{{Addr: "10.0.0.1", Type: "N3", MTU: mtu}}}
	case 2:
		cfg.Gtpu = &factory.Gtpu{Forwarder: "gtp5g"}
	case 3:
		cfg.Gtpu = &factory.Gtpu{Forwarder: "gtp5g", IfList: []factory.IfInfo{{Addr: "10.0.0.1", Type: "N3", MTU: mtu}}}
	case 4:
		cfg.Gtpu = &factory.Gtpu{Forwarder: "gtp5g", IfList: []factory.IfInfo{{Addr: "10.0.0.1", Type: "N3", MTU: mtu}, {Addr: "10.0.0.2", Type: "N9", MTU: 1}}}
		cfg.DnnList = []factory.DnnList{{Dnn: "internet", Cidr: "10.60.0.0/16"}, {Dnn: "bad", Cidr: "10.61.0.0/99"}}
	}
	var wg sync.WaitGroup
	d, err := NewDriver(&wg, cfg)
	if shape <= 2 {
		zzAssert("C20.driver.invalid-config-is-error", err != nil && d == nil)
		zzAssert("C20.driver.invalid-config-opens-nothing", len(zzOpens) == 0 && len(k.reqs) == 0)
		zzCover("C20.driver.rejected")
		return
	}
	zzAssert("C20.driver.opened-once", len(zzOpens) == 1)
	if len(zzOpens) == 1 {
		zzAssert("C20.driver.first-interface-port-2152", zzOpens[0].addr == "10.0.0.1:2152")
		zzAssert("C20.driver.first-interface-mtu", zzOpens[0].mtu == mtu)
	}
	if zzOpenFails {
		zzAssert("C20.driver.open-failure-is-error", err != nil && d == nil)
		zzCover("C20.driver.open-failed")
		return
	}
	zzAssert("C20.driver.started", err == nil && d != nil)
	if shape == 4 {
		// one route per DNN with a valid CIDR
		zzAssert("C20.driver.routes", len(k.reqs) == 1)
	}
	zzCover("C20.driver.started")
}

func ZZ_C20_Version()       { zzC20Version() }
func ZZ_C20_VersionFaults() { zzC20VersionFaults() }
func ZZ_C20_NewDriver()     { zzC20NewDriver() }
