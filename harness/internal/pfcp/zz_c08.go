//go:build verif

package pfcp

import (
	"net"
	"time"

	"github.com/wmnsk/go-pfcp/ie"
	"github.com/wmnsk/go-pfcp/message"
)

// C08: responses are correlated with their request and consistent with its effect.
// Oracle: reference header/IE decoder written from TS 29.244 7.2.2 / 8.2 on the bytes sent.

var zzInstants = []int64{
	-2208988799, // 1900-01-01T00:00:01Z : NTP second 1
	1790812800,  // 2026-10-01T00:00:00Z
	2085978495,  // 2036-02-07T06:28:15Z : last second of NTP era 0
}

type zzRspWorld struct {
	*zzWorld
	start int64
}

func zzMkRsp() *zzRspWorld {
	w := &zzRspWorld{zzWorld: zzNewWorld(zzFAR, false)}
	k := 1
	if zzTier() == 1 {
		k = nondetChoice("instant", 3)
	}
	w.start = zzInstants[k]
	w.s.recoveryTime = time.Unix(w.start, 0)
	return w
}

func (w *zzRspWorld) wantTS() uint32 { return uint32(w.start + 2208988800) }

// checkRecovery asserts the Recovery Time Stamp IE (type 96) equals the start instant.
func (w *zzRspWorld) checkRecovery(b []byte, h zzHdr, tag string) {
	p, ok := zzFindIE(b, h, 96)
	zzAssert("C08.recovery-ts.present."+tag, ok && len(p) == 4)
	if ok && len(p) == 4 {
		zzAssert("C08.recovery-ts.is-start-instant."+tag, zzBE32(p) == w.wantTS())
	}
}

func (w *zzRspWorld) checkNodeID(b []byte, h zzHdr, tag string) {
	p, ok := zzFindIE(b, h, 60)
	zzAssert("C08.nodeid.present."+tag, ok && len(p) == 5)
	if ok && len(p) == 5 {
		zzAssert("C08.nodeid.is-upf."+tag, p[0] == 0 && p[1] == 127 && p[2] == 0 && p[3] == 0 && p[4] == 3)
	}
}

// one expects exactly one new datagram, to addr, echoing seq, of type typ.
func (w *zzRspWorld) one(addr net.Addr, seq uint32, typ uint8, tag string) ([]byte, zzHdr, bool) {
	n := zzSentCount()
	zzAssert("C08.exactly-one-response."+tag, n == w.sent+1)
	if n != w.sent+1 {
		w.sent = n
		return nil, zzHdr{}, false
	}
	b := zzSentBytes(w.sent)
	to := zzSentAddr(w.sent)
	w.sent = n
	zzObserve("rsp."+tag, b)
	h := zzParseHdr(b)
	zzAssert("C08.rsp.wellformed."+tag, h.ok && h.version == 1)
	zzAssert("C08.rsp.to-requester."+tag, to.String() == addr.String())
	zzAssert("C08.rsp.echoes-sequence."+tag, h.seq == seq)
	zzAssert("C08.rsp.type."+tag, h.typ == typ)
	return b, h, h.ok
}

func (w *zzRspWorld) none(tag string) {
	zzAssert("C08.no-response."+tag, zzSentCount() == w.sent)
	w.sent = zzSentCount()
}

type zzTrace struct {
	nsess, nfree, nnodes, ncalls, nrules, nowned int
}

func (w *zzRspWorld) trace() zzTrace {
	// sessions = live sessions (a slot that was allocated and correctly given back is no trace)
	t := zzTrace{nnodes: len(w.s.rnodes), ncalls: len(w.dp.calls)}
	for _, x := range w.s.lnode.sess {
		if x != nil {
			t.nsess++
		}
	}
	for i := range w.dp.rules {
		if w.dp.rules[i].state != zzAbsent {
			t.nrules++
		}
	}
	for _, n := range w.s.rnodes {
		t.nowned += len(n.sess) // SEIDs the associations list as theirs
	}
	return t
}

func (w *zzRspWorld) noTrace(t zzTrace, tag string) {
	zzAssert("C08.no-trace.sessions."+tag, w.trace().nsess == t.nsess)
	zzAssert("C08.no-trace.nodes."+tag, len(w.s.rnodes) == t.nnodes)
	zzAssert("C08.no-trace.ownership."+tag, w.trace().nowned == t.nowned)
	zzAssert("C08.no-trace.dataplane."+tag, len(w.dp.calls) == t.ncalls)
}

func zzSeq24(name string) uint32 { return nondetU32(name) & 0xffffff }

func zzC08Heartbeat() {
	w := zzMkRsp()
	a := nondetChoice("peer", 2)
	seq := zzSeq24("seq")
	zzDeliver(w.s, zzHbReq(seq), zzAddr(a), seq)
	if b, h, ok := w.one(zzAddr(a), seq, 2, "hb"); ok {
		zzAssert("C08.hb.no-seid", !h.s)
		w.checkRecovery(b, h, "hb")
	}
	// a second heartbeat and an association setup carry the same time stamp
	seq2 := zzSeq24("seq2")
	zzDeliver(w.s, zzAssocReq(seq2, zzNodeID(a)), zzAddr(a), seq2)
	if b, h, ok := w.one(zzAddr(a), seq2, 6, "assoc"); ok {
		w.checkRecovery(b, h, "assoc")
		w.checkNodeID(b, h, "assoc")
		zzAssert("C08.assoc.cause-accepted", zzFindCause(b, h) == ie.CauseRequestAccepted)
	}
	zzCover("C08.hb.done")
}

func zzC08AssocNoNodeID() {
	w := zzMkRsp()
	seq := zzSeq24("seq")
	t := w.trace()
	zzDeliver(w.s, zzAssocReqNoNode(seq), zzAddrA, seq)
	w.none("assoc-no-nodeid")
	w.noTrace(t, "assoc-no-nodeid")
	zzCover("C08.assoc-nonode.done")
}

// establishment: 0..2 Create PDRs with/without UE IP address; node known or not; F-SEID / Node ID present or not
func zzC08Establish() {
	w := zzMkRsp()
	w.g.assoc[0] = true
	zzDeliver(w.s, zzAssocReq(1, zzNodeA), zzAddrA, 1)
	w.sent = zzSentCount()
	n := nondetChoice("from-node", 2) // node B is not associated
	shape := nondetChoice("shape", 5) // 0 complete, 1 no Node ID, 2 no CP F-SEID, 3/4 CP F-SEID present but undecodable
	cp := nondetU64("cpseid")
	seq := zzSeq24("seq")
	var ies []*ie.IE
	if shape != 1 {
		ies = append(ies, ie.NewNodeID(zzNodeID(n), "", ""))
	}
	switch shape {
	case 2:
	case 3: // V4 flag set, address truncated
		ies = append(ies, ie.New(ie.FSEID, []byte{0x02, 0, 0, 0, 0, 0, 0, 0, 0x11}))
	case 4: // empty payload
		ies = append(ies, ie.New(ie.FSEID, nil))
	default:
		ies = append(ies, ie.NewFSEID(cp, []byte{127, 0, 0, byte(n + 1)}, nil))
	}
	np := nondetChoice("npdr", 3)
	var pid [2]uint16
	var hasUE [2]bool
	ueAddrs := []string{"10.60.0.1", "192.168.255.254"}
	for i := 0; i < np; i++ {
		pid[i] = nondetU16("pdrid")
		hasUE[i] = nondetChoice("ueip", 2) == 1
		pdi := []*ie.IE{ie.NewSourceInterface(ie.SrcInterfaceCore)}
		if hasUE[i] {
			pdi = append(pdi, ie.NewUEIPAddress(2, ueAddrs[i], "", 0, 0))
		}
		ies = append(ies, ie.NewCreatePDR(ie.NewPDRID(pid[i]), ie.NewPrecedence(1), ie.NewPDI(pdi...)))
	}
	t := w.trace()
	zzDeliver(w.s, zzEstReq(seq, ies...), zzAddr(n), seq)
	if n == 1 || shape != 0 {
		w.none("est-early-return")
		w.noTrace(t, "est-early-return")
		zzCover("C08.est.early-return")
		return
	}
	b, h, ok := w.one(zzAddr(n), seq, 51, "est")
	if !ok {
		return
	}
	zzAssert("C08.est.header-seid-is-peers", h.s && h.seid == cp)
	zzAssert("C08.est.cause-accepted", zzFindCause(b, h) == ie.CauseRequestAccepted)
	w.checkNodeID(b, h, "est")
	fs, okf := zzFindIE(b, h, 57)
	zzAssert("C08.est.up-fseid.present", okf && len(fs) == 13)
	if !okf || len(fs) != 13 {
		return
	}
	zzAssert("C08.est.up-fseid.v4-flag-and-addr", fs[0] == 0x02 && fs[9] == 127 && fs[10] == 0 && fs[11] == 0 && fs[12] == 3)
	var up uint64
	for i := 0; i < 8; i++ {
		up = up<<8 | uint64(fs[1+i])
	}
	zzAssert("C08.est.up-fseid.nonzero", up != 0)
	// Created PDR IEs (type 8) exactly for the PDRs that carry a UE IP address, in order
	want := 0
	for i := 0; i < np; i++ {
		if hasUE[i] {
			want++
		}
	}
	zzAssert("C08.est.created-pdr-count", zzCountIE(b, h, 8) == want)
	k := 0
	p := h.off
	for p+4 <= len(b) {
		typ := uint16(b[p])<<8 | uint16(b[p+1])
		l := int(b[p+2])<<8 | int(b[p+3])
		if typ == 8 {
			for k < np && !hasUE[k] {
				k++
			}
			g := b[p+4 : p+4+l]
			// first child: PDR ID (type 56, len 2)
			zzAssert("C08.est.created-pdr.id", k < np && len(g) >= 6 && g[0] == 0 && g[1] == 56 && uint16(g[4])<<8|uint16(g[5]) == pid[k])
			k++
		}
		p += 4 + l
	}
	// the returned UP F-SEID addresses the new session from now on
	seq2 := zzSeq24("seq2")
	from := len(w.dp.calls)
	zzDeliver(w.s, zzModReq(up, seq2, ie.NewCreateFAR(ie.NewFARID(7), ie.NewApplyAction(2))), zzAddr(n), seq2)
	if b2, h2, ok2 := w.one(zzAddr(n), seq2, 53, "est-then-mod"); ok2 {
		zzAssert("C08.est-then-mod.accepted", zzFindCause(b2, h2) == ie.CauseRequestAccepted)
		zzAssert("C08.est-then-mod.seid-is-peers", h2.seid == cp)
		zzAssert("C08.est-then-mod.acts-on-new-session", len(w.dp.calls) == from+1 && w.dp.calls[from].seid == up && w.dp.calls[from].id == 7)
	}
	zzCover("C08.est.done")
}

// modification / deletion addressed by an arbitrary header SEID, one live session
func zzC08SessionLevel() {
	w := zzMkRsp()
	n := w.s.NewNode(zzNodeA, zzAddrA, w.dp)
	w.s.rnodes[zzNodeA] = n
	cp := nondetU64("cpseid")
	sess := n.NewSess(cp)
	oldID := sess.LocalID
	// the session may have ended before the request arrives: deleted by its peer, or dropped because
	// the peer set up its association again - its SEID must then be answered "context not found"
	ended := nondetChoice("ended-before", 3)
	switch ended {
	case 1:
		zzDeliver(w.s, zzDelReq(oldID, 0xfffff1), zzAddrA, 0xfffff1)
	case 2:
		zzDeliver(w.s, zzAssocReq(0xfffff1, zzNodeA), zzAddrA, 0xfffff1)
	}
	if ended != 0 {
		zzAssert("C08.sess.prefix-answered", zzSentCount() == 1)
		w.sent = zzSentCount()
		zzCover("C08.sess.ended-before")
	}
	x := nondetU64("header-seid")
	seq := zzSeq24("seq")
	zzAssume(seq != 0xfffff1 && seq != 0xfffff3)
	peer := nondetChoice("peer", 2)
	kind := nondetChoice("kind", 3) // 0 modification, 1 deletion, 2 modification with undecodable Node ID
	t := w.trace()
	live := ended == 0 && x == oldID
	// a Modification may carry a CP F-SEID IE (the control plane changing its SEID). Whether the UPF
	// adopts it or ignores it, it must do so consistently: this response and the next one for the
	// same session carry the same SEID, and it is one of the two the peer has named.
	newCP := cp
	withFSEID := kind == 0 && nondetBool("modification-carries-cp-fseid")
	switch kind {
	case 0:
		if withFSEID {
			newCP = nondetU64("new-cpseid")
			zzDeliver(w.s, zzModReq(x, seq, ie.NewFSEID(newCP, []byte{127, 0, 0, 1}, nil)), zzAddr(peer), seq)
			break
		}
		zzDeliver(w.s, zzModReq(x, seq), zzAddr(peer), seq)
	case 1:
		zzDeliver(w.s, zzDelReq(x, seq), zzAddr(peer), seq)
	case 2:
		zzDeliver(w.s, zzModReq(x, seq, ie.New(ie.NodeID, []byte{0})), zzAddr(peer), seq)
	}
	if kind == 2 && live {
		w.none("mod-bad-nodeid")
		w.noTrace(t, "mod-bad-nodeid")
		zzCover("C08.sess.bad-nodeid")
		return
	}
	typ := uint8(53)
	if kind == 1 {
		typ = 55
	}
	b, h, ok := w.one(zzAddr(peer), seq, typ, "sess")
	if !ok {
		return
	}
	cause := zzFindCause(b, h)
	if live {
		zzAssert("C08.sess.accepted", cause == ie.CauseRequestAccepted)
		zzAssert("C08.sess.seid-is-peers", h.s && (h.seid == cp || h.seid == newCP))
		if withFSEID {
			// the next response for this session (a Deletion) names the same control-plane SEID
			zzDeliver(w.s, zzDelReq(x, 0xfffff3), zzAddr(peer), 0xfffff3)
			if _, h2, ok2 := w.one(zzAddr(peer), 0xfffff3, 55, "sess-after-fseid"); ok2 {
				zzAssert("C08.sess.cp-seid-consistent-across-responses", h2.s && h2.seid == h.seid)
			}
			zzCover("C08.sess.with-cp-fseid")
		}
		zzCover("C08.sess.live")
	} else {
		zzAssert("C08.sess.notfound-cause", cause == ie.CauseSessionContextNotFound)
		zzAssert("C08.sess.notfound-seid0", h.s && h.seid == 0)
		w.noTrace(t, "sess-notfound")
		zzCover("C08.sess.notfound")
	}
}

// the answer to a retransmitted request is a response too: it must still go to the requester,
// echo ITS sequence number and be of ITS type, whatever was answered in between
func zzC08Retransmission() {
	l := zzStartLoop(false)
	s1 := zzSeq24("seq1")
	s2 := zzSeq24("seq2")
	p2 := nondetChoice("second-peer", 2)
	kind2 := nondetChoice("second-kind", 2)
	if p2 == 0 {
		zzAssume(s1 != s2)
	}
	l.feed(zzMarshal(zzAssocReq(s1, zzNodeA)), zzAddrA)
	zzAssert("C08.rtx.first-answered", zzSentCount() == 1)
	if kind2 == 0 {
		l.feed(zzMarshal(zzHbReq(s2)), zzAddr(p2))
	} else {
		l.feed(zzMarshal(zzAssocReq(s2, zzNodeID(p2))), zzAddr(p2))
	}
	zzAssert("C08.rtx.second-answered", zzSentCount() == 2)
	l.feed(zzMarshal(zzAssocReq(s1, zzNodeA)), zzAddrA)
	zzAssert("C08.rtx.duplicate-answered", zzSentCount() == 3)
	if zzSentCount() == 3 {
		b := zzSentBytes(2)
		h := zzParseHdr(b)
		zzAssert("C08.rtx.wellformed", h.ok)
		zzAssert("C08.rtx.to-requester", zzSentAddr(2).String() == zzAddrA.String())
		zzAssert("C08.rtx.echoes-its-own-sequence", h.seq == s1)
		zzAssert("C08.rtx.its-own-type", h.typ == 6)
	}
	l.stop()
	zzCover("C08.rtx.done")
}

func ZZ_C08_Retransmission() { zzC08Retransmission() }
func ZZ_C08_Heartbeat()      { zzC08Heartbeat() }
func ZZ_C08_AssocNoNodeID()  { zzC08AssocNoNodeID() }
func ZZ_C08_Establish()      { zzC08Establish() }
func ZZ_C08_SessionLevel()   { zzC08SessionLevel() }

// "peers choosing equal control-plane SEIDs": two associated peers establish one session each and
// both name the same CP SEID. Each response must carry that SEID back to its own requester, and a
// session-level event of one peer (a Deletion, or a Session Report Response with SEID 0 for a report
// of its session) must leave the other peer's session answering as before.
func zzC08EqualCPSEIDs() {
	w := zzMkRsp()
	cp := nondetU64("cpseid")
	var up [2]uint64
	for k := 0; k < 2; k++ {
		zzDeliver(w.s, zzAssocReq(uint32(1+k), zzNodeID(k)), zzAddr(k), uint32(1+k))
		w.sent = zzSentCount()
		seq := uint32(10 + k)
		zzDeliver(w.s, zzEstReq(seq, ie.NewNodeID(zzNodeID(k), "", ""), ie.NewFSEID(cp, []byte{127, 0, 0, byte(1 + k)}, nil),
			ie.NewCreateFAR(ie.NewFARID(1), ie.NewApplyAction(2))), zzAddr(k), seq)
		b, h, ok := w.one(zzAddr(k), seq, 51, "eq.est")
		if !ok {
			return
		}
		zzAssert("C08.eq.est.header-seid-is-peers", h.s && h.seid == cp)
		fs, okf := zzFindIE(b, h, 57)
		if !okf || len(fs) != 13 {
			zzAssert("C08.eq.est.up-fseid", false)
			return
		}
		for i := 0; i < 8; i++ {
			up[k] = up[k]<<8 | uint64(fs[1+i])
		}
	}
	zzAssert("C08.eq.distinct-up-seids", up[0] != up[1] && up[0] != 0 && up[1] != 0)
	// one peer's session ends
	g := nondetChoice("ending-peer", 2)
	o := 1 - g
	if nondetBool("ended-by-seid0-report-response") {
		req := message.NewSessionReportRequest(0, 0, cp, 0, 0, ie.NewReportType(0, 0, 1, 0))
		rsp := message.NewSessionReportResponse(0, 0, 0, 0, 0, ie.NewCause(ie.CauseSessionContextNotFound))
		w.s.handleSessionReportResponse(rsp, zzAddr(g), req)
		w.none("eq.reportrsp")
	} else {
		zzDeliver(w.s, zzDelReq(up[g], 20), zzAddr(g), 20)
		if _, h, ok := w.one(zzAddr(g), 20, 55, "eq.del"); ok {
			zzAssert("C08.eq.del.seid-is-peers", h.s && h.seid == cp)
		}
	}
	// the other peer's session still answers, under its own CP SEID; the ended one is unknown now
	zzDeliver(w.s, zzModReq(up[o], 30), zzAddr(o), 30)
	if b, h, ok := w.one(zzAddr(o), 30, 53, "eq.other"); ok {
		zzAssert("C08.eq.other-session-still-accepted", zzFindCause(b, h) == ie.CauseRequestAccepted && h.s && h.seid == cp)
	}
	zzDeliver(w.s, zzModReq(up[g], 31), zzAddr(g), 31)
	if b, h, ok := w.one(zzAddr(g), 31, 53, "eq.ended"); ok {
		zzAssert("C08.eq.ended-session-not-found", zzFindCause(b, h) == ie.CauseSessionContextNotFound && h.s && h.seid == 0)
	}
	zzCover("C08.eq.done")
}

func ZZ_C08_EqualCPSEIDs() { zzC08EqualCPSEIDs() }
