//go:build verif

package forwarder

import (
	"time"

	"github.com/wmnsk/go-pfcp/ie"

	"github.com/free5gc/go-gtp5gnl"
)

// C03: QER, URR and BAR reach the kernel exactly as the SMF specified them; PERIO URRs are
// registered for periodic querying with their measurement period.

// ---------- QER ----------

type zzQERIn struct {
	has  [8]bool // corr, gate, mbr, gbr, qfi, rqi, ppi
	id   []byte
	corr []byte
	gate []byte
	mbr  []byte
	gbr  []byte
	qfi  []byte
	rqi  []byte
	ppi  []byte
	kids []*ie.IE
}

func zzMkQER(mask int) *zzQERIn {
	in := &zzQERIn{}
	in.id = nondetBytes("qerid", 4)
	in.kids = append(in.kids, ie.New(ie.QERID, in.id))
	for b := 0; b < 7; b++ {
		in.has[b] = mask&(1<<uint(b)) != 0
	}
	if in.has[0] {
		in.corr = nondetBytes("corrid", 4)
		in.kids = append(in.kids, ie.New(ie.QERCorrelationID, in.corr))
	}
	if in.has[1] {
		in.gate = nondetBytes("gate", 1)
		zzAssume(in.gate[0] < 16) // spare bits 5-8 zero
		in.kids = append(in.kids, ie.New(ie.GateStatus, in.gate))
	}
	if in.has[2] {
		in.mbr = nondetBytes("mbr", 10)
		in.kids = append(in.kids, ie.New(ie.MBR, in.mbr))
	}
	if in.has[3] {
		in.gbr = nondetBytes("gbr", 10)
		in.kids = append(in.kids, ie.New(ie.GBR, in.gbr))
	}
	if in.has[4] {
		in.qfi = nondetBytes("qfi", 1)
		zzAssume(in.qfi[0] < 64)
		in.kids = append(in.kids, ie.New(ie.QFI, in.qfi))
	}
	if in.has[5] {
		in.rqi = nondetBytes("rqi", 1)
		zzAssume(in.rqi[0] < 2)
		in.kids = append(in.kids, ie.New(ie.RQI, in.rqi))
	}
	if in.has[6] {
		in.ppi = nondetBytes("ppi", 1)
		zzAssume(in.ppi[0] < 8)
		in.kids = append(in.kids, ie.New(ie.PagingPolicyIndicator, in.ppi))
	}
	return in
}

func zzRotate(kids []*ie.IE, r int, rev bool) []*ie.IE {
	n := len(kids)
	out := make([]*ie.IE, 0, n)
	for i := 0; i < n; i++ {
		out = append(out, kids[(i+r)%n])
	}
	if rev {
		for i, j := 0, n-1; i < j; i, j = i+1, j-1 {
			out[i], out[j] = out[j], out[i]
		}
	}
	return out
}

func zzRate(attrs []byte, top int, hi int, lo int) (uint64, bool) {
	g, ok := zzFindAttr(attrs, top, 0)
	if !ok {
		return 0, false
	}
	h, ok1 := zzFindAttr(g, hi, 0)
	l, ok2 := zzFindAttr(g, lo, 0)
	if !ok1 || !ok2 || len(h) != 4 || len(l) != 1 {
		return 0, false
	}
	return uint64(zzLE32(h))<<8 | uint64(l[0]), true
}

func (in *zzQERIn) check(attrs []byte, seid uint64, link uint32, tag string) {
	zzWalk("QER", "", attrs, tag)
	q, err := gtp5gnl.DecodeQER(attrs)
	zzAssert("C03.qer.decodes."+tag, err == nil && q != nil)
	if err != nil || q == nil {
		return
	}
	zzAssert("C03.qer.id."+tag, q.ID == zzBE32(in.id))
	zzAssert("C03.qer.seid."+tag, q.SEID != nil && *q.SEID == seid)
	l, okl := zzFindAttr(attrs, gtp5gnl.LINK, 0)
	zzAssert("C03.qer.link."+tag, okl && len(l) == 4 && zzLE32(l) == link)
	zzAssert("C03.qer.corr.presence."+tag, (zzCountAttr(attrs, gtp5gnl.QER_CORR_ID) == 1) == in.has[0])
	if in.has[0] {
		zzAssert("C03.qer.corr."+tag, q.CorrID == zzBE32(in.corr))
	}
	zzAssert("C03.qer.gate.presence."+tag, (zzCountAttr(attrs, gtp5gnl.QER_GATE) == 1) == in.has[1])
	if in.has[1] {
		zzAssert("C03.qer.gate."+tag, q.Gate == in.gate[0])
	}
	zzAssert("C03.qer.mbr.presence."+tag, (zzCountAttr(attrs, gtp5gnl.QER_MBR) == 1) == in.has[2])
	if in.has[2] {
		ul, ok1 := zzRate(attrs, gtp5gnl.QER_MBR, gtp5gnl.QER_MBR_UL_HIGH32, gtp5gnl.QER_MBR_UL_LOW8)
		dl, ok2 := zzRate(attrs, gtp5gnl.QER_MBR, gtp5gnl.QER_MBR_DL_HIGH32, gtp5gnl.QER_MBR_DL_LOW8)
		zzAssert("C03.qer.mbr.ul."+tag, ok1 && ul == zzBE40(in.mbr[0:5]))
		zzAssert("C03.qer.mbr.dl."+tag, ok2 && dl == zzBE40(in.mbr[5:10]))
	}
	zzAssert("C03.qer.gbr.presence."+tag, (zzCountAttr(attrs, gtp5gnl.QER_GBR) == 1) == in.has[3])
	if in.has[3] {
		ul, ok1 := zzRate(attrs, gtp5gnl.QER_GBR, gtp5gnl.QER_GBR_UL_HIGH32, gtp5gnl.QER_GBR_UL_LOW8)
		dl, ok2 := zzRate(attrs, gtp5gnl.QER_GBR, gtp5gnl.QER_GBR_DL_HIGH32, gtp5gnl.QER_GBR_DL_LOW8)
		zzAssert("C03.qer.gbr.ul."+tag, ok1 && ul == zzBE40(in.gbr[0:5]))
		zzAssert("C03.qer.gbr.dl."+tag, ok2 && dl == zzBE40(in.gbr[5:10]))
	}
	zzAssert("C03.qer.qfi.presence."+tag, (zzCountAttr(attrs, gtp5gnl.QER_QFI) == 1) == in.has[4])
	if in.has[4] {
		zzAssert("C03.qer.qfi."+tag, q.QFI == in.qfi[0])
	}
	zzAssert("C03.qer.rqi.presence."+tag, (zzCountAttr(attrs, gtp5gnl.QER_RQI) == 1) == in.has[5])
	if in.has[5] {
		zzAssert("C03.qer.rqi."+tag, q.RQI == in.rqi[0])
	}
	zzAssert("C03.qer.ppi.presence."+tag, (zzCountAttr(attrs, gtp5gnl.QER_PPI) == 1) == in.has[6])
	if in.has[6] {
		zzAssert("C03.qer.ppi."+tag, q.PPI == in.ppi[0])
	}
}

func zzQERMask() int {
	if zzTier() == 1 {
		return nondetChoice("subset", 128)
	}
	return []int{0x7f, 0x00, 0x16}[nondetChoice("profile", 3)]
}

func zzC03QER(update bool) {
	k := zzInstallKernel()
	link := nondetU32("link")
	seid := nondetU64("seid")
	g := zzGtp5g(link)
	in := zzMkQER(zzQERMask())
	kids := zzRotate(in.kids, nondetChoice("rotate", len(in.kids)), nondetChoice("reverse", 2) == 1)
	var err error
	op := "CreateQER"
	if update {
		op = "UpdateQER"
		err = g.UpdateQER(seid, ie.NewGroupedIE(ie.UpdateQER, kids...))
	} else {
		err = g.CreateQER(seid, ie.NewGroupedIE(ie.CreateQER, kids...))
	}
	zzAssert("C03.qer.accepted", err == nil)
	if attrs, ok := zzOneReq(k, 0, op, "qer"); ok {
		zzObserve("request", k.reqs[0].b)
		in.check(attrs, seid, link, "qer")
	}
	zzCover("C03.qer.done")
}

// ---------- URR ----------

type zzURRIn struct {
	has    [6]bool // method, triggers, period, info, threshold, quota
	id     []byte
	method []byte
	trig   []byte
	period []byte
	info   []byte
	thr    []byte
	quota  []byte
	thrF   int
	quoF   int
	kids   []*ie.IE
}

func zzVolIE(name string, flags int) []byte {
	p := []byte{byte(flags)}
	for b := 0; b < 3; b++ {
		if flags&(1<<uint(b)) != 0 {
			p = append(p, nondetBytes(name, 8)...)
		}
	}
	return p
}

func zzMkURR(mask int, trigLen int, thrF, quoF int) *zzURRIn {
	in := &zzURRIn{thrF: thrF, quoF: quoF}
	in.id = nondetBytes("urrid", 4)
	in.kids = append(in.kids, ie.New(ie.URRID, in.id))
	for b := 0; b < 6; b++ {
		in.has[b] = mask&(1<<uint(b)) != 0
	}
	if in.has[0] {
		in.method = nondetBytes("method", 1)
		zzAssume(in.method[0] < 8)
		in.kids = append(in.kids, ie.New(ie.MeasurementMethod, in.method))
	}
	if in.has[1] {
		in.trig = nondetBytes("triggers", trigLen)
		in.kids = append(in.kids, ie.New(ie.ReportingTriggers, in.trig))
	}
	if in.has[2] {
		in.period = nondetBytes("period", 4)
		in.kids = append(in.kids, ie.New(ie.MeasurementPeriod, in.period))
	}
	if in.has[3] {
		in.info = nondetBytes("minfo", 1)
		in.kids = append(in.kids, ie.New(ie.MeasurementInformation, in.info))
	}
	if in.has[4] {
		in.thr = zzVolIE("threshold", thrF)
		in.kids = append(in.kids, ie.New(ie.VolumeThreshold, in.thr))
	}
	if in.has[5] {
		in.quota = zzVolIE("quota", quoF)
		in.kids = append(in.kids, ie.New(ie.VolumeQuota, in.quota))
	}
	return in
}

func (in *zzURRIn) perio() bool { return in.has[1] && in.trig[0]&0x01 != 0 }

func (in *zzURRIn) seconds() uint32 { return zzBE32(in.period) }

// checkVol compares a threshold/quota group with the IE: flags, and each volume present iff flagged.
func zzCheckVol(attrs []byte, top int, p []byte, flags int, tag string) {
	g, ok := zzFindAttr(attrs, top, 0)
	zzAssert("C03.urr.vol.present."+tag, ok)
	if !ok {
		return
	}
	f, okf := zzFindAttr(g, 1, 0)
	zzAssert("C03.urr.vol.flags."+tag, okf && len(f) == 1 && f[0] == byte(flags))
	off := 1
	for b := 0; b < 3; b++ {
		want := flags&(1<<uint(b)) != 0
		zzAssert("C03.urr.vol.presence."+tag, (zzCountAttr(g, 2+b) == 1) == want)
		if want {
			v, okv := zzFindAttr(g, 2+b, 0)
			zzAssert("C03.urr.vol.value."+tag, okv && len(v) == 8 && zzLE64(v) == zzBE64(p[off:off+8]))
			off += 8
		}
	}
}

func (in *zzURRIn) check(attrs []byte, seid uint64, link uint32, tag string) {
	zzWalk("URR", "", attrs, tag)
	u, err := gtp5gnl.DecodeURR(attrs)
	zzAssert("C03.urr.decodes."+tag, err == nil && u != nil)
	if err != nil || u == nil {
		return
	}
	zzAssert("C03.urr.id."+tag, u.ID == zzBE32(in.id))
	zzAssert("C03.urr.seid."+tag, u.SEID != nil && *u.SEID == seid)
	l, okl := zzFindAttr(attrs, gtp5gnl.LINK, 0)
	zzAssert("C03.urr.link."+tag, okl && len(l) == 4 && zzLE32(l) == link)
	zzAssert("C03.urr.method.presence."+tag, (zzCountAttr(attrs, gtp5gnl.URR_MEASUREMENT_METHOD) == 1) == in.has[0])
	if in.has[0] {
		zzAssert("C03.urr.method."+tag, u.Method == in.method[0])
	}
	zzAssert("C03.urr.triggers.presence."+tag, (zzCountAttr(attrs, gtp5gnl.URR_REPORTING_TRIGGER) == 1) == in.has[1])
	if in.has[1] {
		want := uint32(in.trig[0]) | uint32(in.trig[1])<<8
		if len(in.trig) > 2 {
			want |= uint32(in.trig[2]) << 16
		}
		zzAssert("C03.urr.triggers."+tag, u.Trigger == want)
	}
	zzAssert("C03.urr.period.presence."+tag, (zzCountAttr(attrs, gtp5gnl.URR_MEASUREMENT_PERIOD) == 1) == in.has[2])
	zzAssert("C03.urr.info.presence."+tag, (zzCountAttr(attrs, gtp5gnl.URR_MEASUREMENT_INFO) == 1) == in.has[3])
	if in.has[3] {
		zzAssert("C03.urr.info."+tag, u.Info != nil && *u.Info == in.info[0])
	}
	zzAssert("C03.urr.threshold.presence."+tag, (zzCountAttr(attrs, gtp5gnl.URR_VOLUME_THRESHOLD) == 1) == in.has[4])
	if in.has[4] {
		zzCheckVol(attrs, gtp5gnl.URR_VOLUME_THRESHOLD, in.thr, in.thrF, tag+".threshold")
	}
	zzAssert("C03.urr.quota.presence."+tag, (zzCountAttr(attrs, gtp5gnl.URR_VOLUME_QUOTA) == 1) == in.has[5])
	if in.has[5] {
		zzCheckVol(attrs, gtp5gnl.URR_VOLUME_QUOTA, in.quota, in.quoF, tag+".quota")
	}
}

func zzURRShape() (mask, trigLen, thrF, quoF int) {
	if zzTier() == 1 {
		mask = nondetChoice("subset", 64)
		trigLen = 2 + nondetChoice("triglen", 2)
		// non-empty flag subsets only: a Volume Threshold / Volume Quota IE with no volume flag is a
		// one-octet payload that go-pfcp itself rejects as malformed (TS 29.244 8.2.13 / 8.2.50:
		// at least one bit shall be set); it is outside "well-formed" (see DESIGN.md 0.3)
		thrF = 1 + nondetChoice("thrflags", 7)
		quoF = 1 + nondetChoice("quoflags", 7)
		return
	}
	switch nondetChoice("profile", 3) {
	case 0:
		return 0x3f, 3, 7, 5
	case 1:
		return 0x03, 2, 0, 0
	}
	return 0x17, 2, 2, 0
}

func zzC03CreateURR() {
	k := zzInstallKernel()
	link := nondetU32("link")
	seid := nondetU64("seid")
	g := zzGtp5g(link)
	in := zzMkURR(zzURRShape())
	if in.has[2] {
		zzAssume(in.seconds() >= 1) // a zero measurement period is rejected by the driver: outside "well-formed"
	}
	kids := zzRotate(in.kids, nondetChoice("rotate", len(in.kids)), nondetChoice("reverse", 2) == 1)
	err := g.CreateURR(seid, ie.NewGroupedIE(ie.CreateURR, kids...))
	if in.perio() && !in.has[2] {
		// periodic reporting asked for without a period: not a well-formed URR. Whatever the driver
		// answers, it must not register a timer without a period (the periodic server hands the period
		// to time.NewTicker, which faults on a non-positive one - in another goroutine, taking the
		// process down) and must not leave a rule in the kernel that reports on no schedule at all
		evs := zzPerio().ZZDrain()
		zzAssert("C03.urr.perio-without-period.nothing-registered", len(evs) == 0)
		zzAssert("C03.urr.perio-without-period.refused", err != nil && len(k.reqs) == 0)
		zzCover("C03.urr.perio-without-period")
		return
	}
	zzAssert("C03.urr.accepted", err == nil)
	if attrs, ok := zzOneReq(k, 0, "CreateURR", "urr"); ok {
		zzObserve("request", k.reqs[0].b)
		in.check(attrs, seid, link, "urr")
	}
	// periodic registration: exactly when PERIO is set, with (SEID, URR, period)
	evs := zzPerio().ZZDrain()
	if in.perio() {
		zzAssert("C03.urr.perio.registered", len(evs) == 1)
		if len(evs) == 1 {
			e := evs[0]
			zzAssert("C03.urr.perio.add", e.Type == 1 && e.SEID == seid && e.URRID == zzBE32(in.id))
			zzAssert("C03.urr.perio.period", e.Period == time.Duration(in.seconds())*time.Second)
			zzAssert("C03.urr.perio.period-positive", e.Period > 0)
		}
		zzCover("C03.urr.perio")
	} else {
		zzAssert("C03.urr.nonperio.not-registered", len(evs) == 0)
		zzCover("C03.urr.nonperio")
	}
	zzCover("C03.urr.done")
}

func zzC03UpdateURR() {
	k := zzInstallKernel()
	link := nondetU32("link")
	seid := nondetU64("seid")
	g := zzGtp5g(link)
	// first the URR is created, periodic (60 s) or not
	wasPerio := nondetChoice("created-periodic", 2) == 1
	id := nondetBytes("urrid", 4)
	ckids := []*ie.IE{ie.New(ie.URRID, id), ie.New(ie.MeasurementMethod, []byte{2})}
	if wasPerio {
		ckids = append(ckids, ie.New(ie.ReportingTriggers, []byte{0x01, 0x00}), ie.New(ie.MeasurementPeriod, []byte{0, 0, 0, 60}))
	} else {
		ckids = append(ckids, ie.New(ie.ReportingTriggers, []byte{0x02, 0x00}))
	}
	err := g.CreateURR(seid, ie.NewGroupedIE(ie.CreateURR, ckids...))
	zzAssert("C03.urr.update.created", err == nil && len(k.reqs) == 1)
	registered := false
	for _, e := range zzPerio().ZZDrain() {
		registered = e.Type == 1
	}
	zzAssert("C03.urr.update.created-registration", registered == wasPerio)
	// then updated with symbolic content
	in := zzMkURR(zzURRShape())
	in.id = id
	in.kids[0] = ie.New(ie.URRID, id)
	if in.has[2] {
		zzAssume(in.seconds() >= 1)
	}
	if in.perio() {
		zzAssume(in.has[2])
	}
	kids := zzRotate(in.kids, nondetChoice("rotate", len(in.kids)), nondetChoice("reverse", 2) == 1)
	_, err = g.UpdateURR(seid, ie.NewGroupedIE(ie.UpdateURR, kids...))
	zzAssert("C03.urr.update.accepted", err == nil)
	if attrs, ok := zzOneReq(k, 1, "UpdateURR", "urr-update"); ok {
		in.check(attrs, seid, link, "urr-update")
	}
	// net periodic registration after the update
	var period time.Duration
	if wasPerio {
		period = 60 * time.Second
	}
	for _, e := range zzPerio().ZZDrain() {
		zzAssert("C03.urr.update.event-for-this-urr", e.SEID == seid && e.URRID == zzBE32(id))
		registered = e.Type == 1
		if e.Type == 1 {
			period = e.Period
		}
	}
	want := wasPerio
	if in.has[1] {
		want = in.perio()
	}
	if want && !wasPerio {
		zzAssert("C03.urr.update.perio-added-is-registered", registered)
	}
	if !want && wasPerio {
		zzAssert("C03.urr.update.perio-cleared-is-unregistered", !registered)
	}
	if want == wasPerio {
		zzAssert("C03.urr.update.registration-kept", registered == want)
	}
	if want && registered && in.has[2] {
		zzAssert("C03.urr.update.period-follows", period == time.Duration(in.seconds())*time.Second)
	}
	zzCover("C03.urr.update.done")
}

func zzC03RemoveURR() {
	k := zzInstallKernel()
	link := nondetU32("link")
	seid := nondetU64("seid")
	g := zzGtp5g(link)
	id := nondetBytes("urrid", 4)
	g.RemoveURR(seid, ie.NewGroupedIE(ie.RemoveURR, ie.New(ie.URRID, id)))
	if attrs, ok := zzOneReq(k, 0, "RemoveURR", "rmurr"); ok {
		zzWalk("URR", "", attrs, "rmurr")
		u, err := gtp5gnl.DecodeURR(attrs)
		zzAssert("C03.rmurr.oid", err == nil && u.ID == zzBE32(id) && u.SEID != nil && *u.SEID == seid)
	}
	evs := zzPerio().ZZDrain()
	zzAssert("C03.rmurr.unregistered", len(evs) == 1 && evs[0].Type == 2 && evs[0].SEID == seid && evs[0].URRID == zzBE32(id))
	zzCover("C03.rmurr.done")
}

// ---------- BAR ----------

func zzC03BAR(update bool) {
	k := zzInstallKernel()
	link := nondetU32("link")
	seid := nondetU64("seid")
	g := zzGtp5g(link)
	mask := nondetChoice("subset", 4)
	id := nondetBytes("barid", 1)
	kids := []*ie.IE{ie.New(ie.BARID, id)}
	var delay, count []byte
	if mask&1 != 0 {
		delay = nondetBytes("delay", 1)
		kids = append(kids, ie.New(ie.DownlinkDataNotificationDelay, delay))
	}
	if mask&2 != 0 {
		count = nondetBytes("count", 1)
		kids = append(kids, ie.New(ie.SuggestedBufferingPacketsCount, count))
	}
	kids = zzRotate(kids, nondetChoice("rotate", len(kids)), false)
	var err error
	op := "CreateBAR"
	if update {
		op = "UpdateBAR"
		err = g.UpdateBAR(seid, ie.NewGroupedIE(ie.UpdateBARWithinSessionModificationRequest, kids...))
	} else {
		err = g.CreateBAR(seid, ie.NewGroupedIE(ie.CreateBAR, kids...))
	}
	zzAssert("C03.bar.accepted", err == nil)
	attrs, ok := zzOneReq(k, 0, op, "bar")
	if !ok {
		return
	}
	zzWalk("BAR", "", attrs, "bar")
	b, err := gtp5gnl.DecodeBAR(attrs)
	zzAssert("C03.bar.decodes", err == nil && b != nil)
	if err != nil || b == nil {
		return
	}
	zzAssert("C03.bar.id", b.ID == id[0])
	zzAssert("C03.bar.seid", b.SEID != nil && *b.SEID == seid)
	l, okl := zzFindAttr(attrs, gtp5gnl.LINK, 0)
	zzAssert("C03.bar.link", okl && len(l) == 4 && zzLE32(l) == link)
	zzAssert("C03.bar.delay.presence", (b.Delay != nil) == (mask&1 != 0))
	if mask&1 != 0 && b.Delay != nil {
		// the IE's value (multiples of 50 ms, TS 29.244 8.2.28), unchanged
		zzAssert("C03.bar.delay", *b.Delay == delay[0])
	}
	zzAssert("C03.bar.count.presence", (b.Count != nil) == (mask&2 != 0))
	if mask&2 != 0 && b.Count != nil {
		zzAssert("C03.bar.count", *b.Count == uint16(count[0]))
	}
	zzCover("C03.bar.done")
}

func zzC03RemoveQERBAR() {
	k := zzInstallKernel()
	link := nondetU32("link")
	seid := nondetU64("seid")
	g := zzGtp5g(link)
	qid := nondetBytes("qerid", 4)
	bid := nondetBytes("barid", 1)
	g.RemoveQER(seid, ie.NewGroupedIE(ie.RemoveQER, ie.New(ie.QERID, qid)))
	if attrs, ok := zzOneReq(k, 0, "RemoveQER", "rmqer"); ok {
		zzWalk("QER", "", attrs, "rmqer")
		q, err := gtp5gnl.DecodeQER(attrs)
		zzAssert("C03.rmqer.oid", err == nil && q.ID == zzBE32(qid) && q.SEID != nil && *q.SEID == seid)
	}
	g.RemoveBAR(seid, ie.NewGroupedIE(ie.RemoveBAR, ie.New(ie.BARID, bid)))
	if attrs, ok := zzOneReq(k, 1, "RemoveBAR", "rmbar"); ok {
		zzWalk("BAR", "", attrs, "rmbar")
		b, err := gtp5gnl.DecodeBAR(attrs)
		zzAssert("C03.rmbar.oid", err == nil && b.ID == bid[0] && b.SEID != nil && *b.SEID == seid)
	}
	zzCover("C03.rm.done")
}

// Measurement Period value. The SMF gives seconds (32 bit); which unit the kernel attribute (u32)
// is meant in is not documented in go-gtp5gnl, so the oracle demands only what every unit has in
// common: the attribute is the period in seconds, milliseconds, microseconds or nanoseconds, without
// wrap-around. Concrete boundary periods (a symbolic 64-bit multiplication by 10^9 is out of reach
// for the solvers here).
func zzC03URRPeriod() {
	k := zzInstallKernel()
	g := zzGtp5g(7)
	secs := []uint32{1, 4, 5, 10, 60, 3600, 86400, 0xffffffff}
	p := secs[nondetChoice("period", len(secs))]
	pb := []byte{byte(p >> 24), byte(p >> 16), byte(p >> 8), byte(p)}
	kids := []*ie.IE{ie.New(ie.URRID, []byte{0, 0, 0, 1}), ie.New(ie.MeasurementMethod, []byte{2}), ie.New(ie.ReportingTriggers, []byte{0x01, 0x00}), ie.New(ie.MeasurementPeriod, pb)}
	var err error
	op := "CreateURR"
	if nondetBool("update") {
		op = "UpdateURR"
		_, err = g.UpdateURR(9, ie.NewGroupedIE(ie.UpdateURR, kids...))
	} else {
		err = g.CreateURR(9, ie.NewGroupedIE(ie.CreateURR, kids...))
	}
	zzAssert("C03.urr.period.accepted", err == nil)
	attrs, ok := zzOneReq(k, 0, op, "urr-period")
	if !ok {
		return
	}
	v, okv := zzFindAttr(attrs, gtp5gnl.URR_MEASUREMENT_PERIOD, 0)
	zzAssert("C03.urr.period.present", okv && len(v) == 4)
	if okv && len(v) == 4 {
		got := uint64(zzLE32(v))
		P := uint64(p)
		zzObserve("period-attribute", got)
		zzAssert("C03.urr.period.value-is-the-period-in-some-unit", got == P || got == P*1000 || got == P*1000000 || got == P*1000000000)
	}
	zzCover("C03.urr.period.done")
}

func ZZ_C03_URRPeriod()    { zzC03URRPeriod() }
func ZZ_C03_CreateQER()    { zzC03QER(false) }
func ZZ_C03_UpdateQER()    { zzC03QER(true) }
func ZZ_C03_CreateURR()    { zzC03CreateURR() }
func ZZ_C03_UpdateURR()    { zzC03UpdateURR() }
func ZZ_C03_RemoveURR()    { zzC03RemoveURR() }
func ZZ_C03_CreateBAR()    { zzC03BAR(false) }
func ZZ_C03_UpdateBAR()    { zzC03BAR(true) }
func ZZ_C03_RemoveQERBAR() { zzC03RemoveQERBAR() }
