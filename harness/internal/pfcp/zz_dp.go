//go:build verif

package pfcp

import (
	"errors"

	"github.com/wmnsk/go-pfcp/ie"

	"github.com/free5gc/go-upf/internal/report"
)

// Model data plane (driver level), see DESIGN.md section 5 / Appendix F.1.

const (
	zzPDR = iota
	zzFAR
	zzQER
	zzURR
	zzBAR
)

const (
	zzOpCreate = iota
	zzOpUpdate
	zzOpRemove
	zzOpQuery
)

const (
	zzAbsent  = 0
	zzPresent = 1
	zzMaybe   = 2 // create was issued and failed: possibly installed
)

type zzRuleRec struct {
	seid  uint64
	kind  uint8
	id    uint32
	state uint8
}

type zzCallRec struct {
	op, kind uint8
	seid     uint64
	id       uint32
	ok       bool
	slotLive bool // the SEID's slot in the local table was occupied at call time
	known    bool // the rule was present/maybe in the model at call time
}

type zzDP struct {
	rules   []zzRuleRec
	calls   []zzCallRec
	faults  bool // inject a symbolic fault into every create/update/query
	ln      *LocalNode
	nrep    int
	repMin  int // reports per query/update: repMin..repMax (C11 relaxation); default exactly per contract
	relaxed bool
	repCap  int // relaxed: at most this many reports per call (0: two)
	canned  []report.USAReport // if set, returned instead of fresh reports (C10)
}

var errZZFault = errors.New("zzDP: injected fault")
var errZZNoRule = errors.New("zzDP: no such rule")
var errZZExists = errors.New("zzDP: rule exists")

func (d *zzDP) find(seid uint64, kind uint8, id uint32) int {
	for i := range d.rules {
		r := &d.rules[i]
		if r.kind != kind || r.state == zzAbsent {
			continue
		}
		if r.seid != seid {
			continue
		}
		if r.id == id {
			return i
		}
	}
	return -1
}

func (d *zzDP) slotLive(seid uint64) bool {
	if d.ln == nil {
		return true
	}
	if seid == 0 || seid > uint64(len(d.ln.sess)) {
		return false
	}
	return d.ln.sess[seid-1] != nil
}

func (d *zzDP) fault(what string) bool {
	if !d.faults {
		return false
	}
	return nondetBool("fault_" + what)
}

func (d *zzDP) create(seid uint64, kind uint8, id uint32) error {
	i := d.find(seid, kind, id)
	rec := zzCallRec{op: zzOpCreate, kind: kind, seid: seid, id: id, slotLive: d.slotLive(seid), known: i >= 0}
	if i >= 0 {
		d.calls = append(d.calls, rec)
		return errZZExists
	}
	if d.fault("create") {
		d.rules = append(d.rules, zzRuleRec{seid, kind, id, zzMaybe})
		d.calls = append(d.calls, rec)
		return errZZFault
	}
	d.rules = append(d.rules, zzRuleRec{seid, kind, id, zzPresent})
	rec.ok = true
	d.calls = append(d.calls, rec)
	return nil
}

func (d *zzDP) touch(op uint8, seid uint64, kind uint8, id uint32) error {
	i := d.find(seid, kind, id)
	rec := zzCallRec{op: op, kind: kind, seid: seid, id: id, slotLive: d.slotLive(seid), known: i >= 0}
	if i < 0 {
		d.calls = append(d.calls, rec)
		return errZZNoRule
	}
	if d.fault("touch") {
		d.calls = append(d.calls, rec)
		return errZZFault
	}
	rec.ok = true
	d.calls = append(d.calls, rec)
	return nil
}

func (d *zzDP) remove(seid uint64, kind uint8, id uint32) error {
	i := d.find(seid, kind, id)
	rec := zzCallRec{op: zzOpRemove, kind: kind, seid: seid, id: id, slotLive: d.slotLive(seid), known: i >= 0}
	if i < 0 {
		d.calls = append(d.calls, rec)
		return errZZNoRule
	}
	d.rules[i].state = zzAbsent
	rec.ok = true
	d.calls = append(d.calls, rec)
	return nil
}

// count of rules not absent for a SEID
func (d *zzDP) rulesOf(seid uint64) int {
	n := 0
	for i := range d.rules {
		if d.rules[i].state != zzAbsent && d.rules[i].seid == seid {
			n++
		}
	}
	return n
}

func (d *zzDP) report(urrid uint32) report.USAReport {
	d.nrep++
	if len(d.canned) > 0 {
		r := d.canned[0]
		return r
	}
	return report.USAReport{
		URRID: urrid,
		VolumMeasure: report.VolumeMeasure{
			TotalVolume: nondetU64("rep_tovol"), UplinkVolume: nondetU64("rep_ulvol"), DownlinkVolume: nondetU64("rep_dlvol"),
			TotalPktNum: nondetU64("rep_tonop"), UplinkPktNum: nondetU64("rep_ulnop"), DownlinkPktNum: nondetU64("rep_dlnop"),
		},
	}
}

func (d *zzDP) Close() {}

func (d *zzDP) CreatePDR(seid uint64, req *ie.IE) error {
	id, err := req.PDRID()
	if err != nil {
		return err
	}
	return d.create(seid, zzPDR, uint32(id))
}
func (d *zzDP) UpdatePDR(seid uint64, req *ie.IE) error {
	id, err := req.PDRID()
	if err != nil {
		return err
	}
	return d.touch(zzOpUpdate, seid, zzPDR, uint32(id))
}
func (d *zzDP) RemovePDR(seid uint64, req *ie.IE) error {
	id, err := req.PDRID()
	if err != nil {
		return err
	}
	return d.remove(seid, zzPDR, uint32(id))
}
func (d *zzDP) CreateFAR(seid uint64, req *ie.IE) error {
	id, err := req.FARID()
	if err != nil {
		return err
	}
	return d.create(seid, zzFAR, id)
}
func (d *zzDP) UpdateFAR(seid uint64, req *ie.IE) error {
	id, err := req.FARID()
	if err != nil {
		return err
	}
	return d.touch(zzOpUpdate, seid, zzFAR, id)
}
func (d *zzDP) RemoveFAR(seid uint64, req *ie.IE) error {
	id, err := req.FARID()
	if err != nil {
		return err
	}
	return d.remove(seid, zzFAR, id)
}
func (d *zzDP) CreateQER(seid uint64, req *ie.IE) error {
	id, err := req.QERID()
	if err != nil {
		return err
	}
	return d.create(seid, zzQER, id)
}
func (d *zzDP) UpdateQER(seid uint64, req *ie.IE) error {
	id, err := req.QERID()
	if err != nil {
		return err
	}
	return d.touch(zzOpUpdate, seid, zzQER, id)
}
func (d *zzDP) RemoveQER(seid uint64, req *ie.IE) error {
	id, err := req.QERID()
	if err != nil {
		return err
	}
	return d.remove(seid, zzQER, id)
}
func (d *zzDP) CreateURR(seid uint64, req *ie.IE) error {
	id, err := req.URRID()
	if err != nil {
		return err
	}
	return d.create(seid, zzURR, id)
}
func (d *zzDP) UpdateURR(seid uint64, req *ie.IE) ([]report.USAReport, error) {
	id, err := req.URRID()
	if err != nil {
		return nil, err
	}
	if err := d.touch(zzOpUpdate, seid, zzURR, id); err != nil {
		return nil, err
	}
	if d.relaxed {
		return d.reports(id, 0), nil
	}
	return nil, nil
}
func (d *zzDP) RemoveURR(seid uint64, req *ie.IE) ([]report.USAReport, error) {
	id, err := req.URRID()
	if err != nil {
		return nil, err
	}
	if err := d.remove(seid, zzURR, id); err != nil {
		return nil, err
	}
	if d.relaxed {
		// 0..2 reports: the repository's own no-op driver answers a removal with no report at all
		return d.reports(id, 0), nil
	}
	return []report.USAReport{d.report(id)}, nil
}
func (d *zzDP) QueryURR(seid uint64, id uint32) ([]report.USAReport, error) {
	if err := d.touch(zzOpQuery, seid, zzURR, id); err != nil {
		return nil, err
	}
	if d.relaxed {
		return d.reports(id, 0), nil
	}
	return []report.USAReport{d.report(id)}, nil
}

// reports returns min..2 reports for one URR (C11 relaxation of the contract).
func (d *zzDP) reports(id uint32, min int) []report.USAReport {
	top := 2
	if d.repCap > 0 {
		top = d.repCap
	}
	n := min + nondetChoice("nreports", top+1-min)
	var rs []report.USAReport
	for i := 0; i < n; i++ {
		rs = append(rs, d.report(id))
	}
	return rs
}
func (d *zzDP) CreateBAR(seid uint64, req *ie.IE) error {
	id, err := req.BARID()
	if err != nil {
		return err
	}
	return d.create(seid, zzBAR, uint32(id))
}
func (d *zzDP) UpdateBAR(seid uint64, req *ie.IE) error {
	id, err := req.BARID()
	if err != nil {
		return err
	}
	return d.touch(zzOpUpdate, seid, zzBAR, uint32(id))
}
func (d *zzDP) RemoveBAR(seid uint64, req *ie.IE) error {
	id, err := req.BARID()
	if err != nil {
		return err
	}
	return d.remove(seid, zzBAR, uint32(id))
}
func (d *zzDP) HandleReport(report.Handler) {}
