//go:build verif

package forwarder

import (
	"net"

	"github.com/free5gc/go-gtp5gnl"
)

// C14, "message assembled for buffered packets": Gtp5g.WritePacket called several times on the
// same driver object, with payload lengths that go up and down and with/without a QFI-carrying QER.
// EVERY datagram that leaves must be a well-formed G-PDU on its own (reference decoder from
// TS 29.281 5.1 / 5.2.1 and TS 38.415 5.5.2): flags 0x34, type 255, length = octets after the first
// eight, the FAR's TEID, optional-field octets zero, PDU session container with the full 6-bit QFI
// or no extension at all, and the payload unchanged at the end - independent of what was sent before.
func zzC14WriteSequence(k int) {
	conn := zzGTPConn()
	g := zzGtp5g(7)
	teid := nondetU32("teid")
	far := &gtp5gnl.FAR{Param: &gtp5gnl.ForwardParam{Creation: &gtp5gnl.HeaderCreation{Desc: 0x0100, TEID: teid, PeerAddr: net.IP{127, 0, 0, 1}, Port: 2152}}}
	for i := 0; i < k; i++ {
		// 0..5: around the 4-octet alignment; 243, 244, 1400: the length field's high octet in use,
		// with and without the extension header (12 / 16 header octets)
		n := []int{0, 1, 2, 3, 4, 5, 243, 244, 1400}[nondetChoice("payload-len", 9)]
		pkt := nondetBytes("payload", n)
		var qer *gtp5gnl.QER
		qfi := uint8(0)
		if nondetBool("with-qfi") {
			qfi = nondetU8("qfi")
			zzAssume(qfi < 64)
			qer = &gtp5gnl.QER{QFI: qfi}
		}
		before := zzSentCountOn(conn)
		err := g.WritePacket(far, qer, pkt)
		zzAssert("C14.write.accepted", err == nil)
		zzAssert("C14.write.one-datagram", zzSentCountOn(conn) == before+1)
		if zzSentCountOn(conn) != before+1 {
			return
		}
		b := zzSentBytesOn(conn, before)
		zzObserve("gpdu", b)
		hl := 12
		if qer != nil {
			hl = 16
		}
		zzAssert("C14.write.size", len(b) == hl+n)
		if len(b) != hl+n {
			continue
		}
		zzAssert("C14.write.flags-type", b[0] == 0x34 && b[1] == 255)
		zzAssert("C14.write.length-field", int(b[2])<<8|int(b[3]) == len(b)-8)
		zzAssert("C14.write.teid", zzBE32(b[4:8]) == teid)
		zzAssert("C14.write.optional-octets-zero", b[8] == 0 && b[9] == 0 && b[10] == 0)
		if qer != nil {
			zzAssert("C14.write.psc", b[11] == 0x85 && b[12] == 1 && b[13] == 0 && b[14] == qfi && b[15] == 0)
		} else {
			zzAssert("C14.write.no-extension", b[11] == 0)
		}
		for j := 0; j < n; j++ {
			zzAssert("C14.write.payload-unchanged", b[hl+j] == pkt[j])
		}
	}
	zzCover("C14.write.done")
}

func ZZ_C14_WriteSequence() { zzC14WriteSequence(2 + zzTier()) }
