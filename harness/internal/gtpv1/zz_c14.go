//go:build verif

package gtpv1

// C14: every re-injected packet is a well-formed G-PDU carrying the full QFI.
// Reference decoder written from TS 29.281 5.1/5.2.1 and TS 38.415 5.5.2.

func zzC14Check(ext int, n int) {
	qfi := nondetU8("qfi")
	pt := nondetU8("pdutype")
	teid := nondetU32("teid")
	zzAssume(qfi < 64)
	zzAssume(pt < 16)
	payload := nondetBytes("payload", n)
	msg := Message{Flags: 0x34, Type: MsgTypeTPDU, TEID: teid, Payload: payload}
	if ext == 1 {
		msg.Exts = []Encoder{PDUSessionContainer{PDUType: pt, QoSFlowID: qfi}}
	}
	l := msg.Len()
	want := 12 + n
	if ext == 1 {
		want += 4
	}
	zzAssert("C14.len", l == want)
	if l != want {
		return
	}
	b := make([]byte, l)
	k, err := msg.Encode(b)
	zzAssert("C14.encode.noerr", err == nil)
	zzAssert("C14.encode.n", k == l)
	zzObserve("bytes", b)
	// mandatory header
	zzAssert("C14.flags", b[0] == 0x34) // version 1, PT=1, E=1, S=0, PN=0
	zzAssert("C14.type", b[1] == 255)
	lf := int(b[2])<<8 | int(b[3])
	zzAssert("C14.lenfield", lf == l-8)
	zzAssert("C14.teid0", b[4] == byte(teid>>24))
	zzAssert("C14.teid1", b[5] == byte(teid>>16))
	zzAssert("C14.teid2", b[6] == byte(teid>>8))
	zzAssert("C14.teid3", b[7] == byte(teid))
	// optional fields present because E is set: sequence, N-PDU must be zero
	zzAssert("C14.seq0", b[8] == 0)
	zzAssert("C14.seq1", b[9] == 0)
	zzAssert("C14.npdu", b[10] == 0)
	pos := 12
	if ext == 1 {
		zzAssert("C14.nextext", b[11] == 0x85)
		zzAssert("C14.ext.len", b[12] == 1)
		zzAssert("C14.ext.pdutype", b[13] == pt<<4)
		zzAssert("C14.ext.qfi", b[14]&0x3f == qfi)
		zzAssert("C14.ext.qfi.spare", b[14]&0xc0 == 0)
		zzAssert("C14.ext.next", b[15] == 0)
		pos = 16
	} else {
		zzAssert("C14.noext", b[11] == 0)
	}
	for i := 0; i < n; i++ {
		zzAssert("C14.payload", b[pos+i] == payload[i])
	}
	zzCover("C14.done")
}

// zzC14Lens: payload lengths 0..small, then windows of 22 lengths that straddle the points where
// the 16-bit length field carries into its high octet (total lengths 256, 512), the default and the
// jumbo MTU.
func zzC14Lens(small int, windows []int) []int {
	var ls []int
	for n := 0; n <= small; n++ {
		ls = append(ls, n)
	}
	for _, w := range windows {
		for n := w - 17; n <= w+4; n++ {
			ls = append(ls, n)
		}
	}
	return ls
}

func ZZ_C14_Quick() {
	ext := nondetChoice("ext", 2)
	ls := zzC14Lens(16, []int{256})
	ls = append(ls, 1400, 1500)
	zzC14Check(ext, ls[nondetChoice("plen", len(ls))])
}

func ZZ_C14_Thorough() {
	ext := nondetChoice("ext", 2)
	ls := zzC14Lens(64, []int{256, 512, 1024, 1400, 1500, 9000})
	zzC14Check(ext, ls[nondetChoice("plen", len(ls))])
}
