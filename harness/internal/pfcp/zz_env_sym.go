//go:build verif

package pfcp

import (
	"net"
	"time"
)

// Environment, engine side (intercepted by gosymx).

func zzSentCount() int
func zzSentBytes(i int) []byte
func zzSentAddr(i int) net.Addr
func zzYield()
func zzExpectExit()
func zzTimersActive() int
func zzTimersCreated() int
func zzGoroutines() int
func zzFireTimer(t *time.Timer) bool

func zzConn() *net.UDPConn { return &net.UDPConn{} }

var zzResetHook func()

func zzTrack(s *PfcpServer) {}
