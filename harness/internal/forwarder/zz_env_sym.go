//go:build verif

package forwarder

import (
	"net"

	"github.com/free5gc/go-upf/internal/forwarder/perio"
)

func zzYield()
func zzSentCountOn(c *net.UDPConn) int
func zzSentBytesOn(c *net.UDPConn, i int) []byte
func zzSentAddrOn(c *net.UDPConn, i int) net.Addr

var zzGTP *net.UDPConn

// zzGTPConn: the GTP-U socket of the link (engine: an inert value; datagrams are logged per socket)
func zzGTPConn() *net.UDPConn {
	if zzGTP == nil {
		zzGTP = &net.UDPConn{}
	}
	return zzGTP
}

// zzPerio: the periodic-report server the driver registers URRs with. Its Serve loop is
// not started by default; harnesses that need it start it themselves.
func zzPerio() *perio.Server {
	if zzPS == nil {
		zzPS = perio.ZZNewServer()
	}
	return zzPS
}

var zzResetHook func()
