package sx

import (
	"go/types"

	"golang.org/x/tools/go/ssa"
)

type pendingSend struct {
	ch    *chanObj
	v     value
	taken bool
	co    *coroutine
}

type chanObj struct {
	cap    int
	elem   types.Type
	buf    []value
	closed bool
	sendq  []*pendingSend
}

// chanSend returns false if the coroutine must block.
func (m *Machine) chanSend(co *coroutine, ch *chanObj, v value) bool {
	if ch == nil {
		return false // blocks forever
	}
	if co.pend != nil && co.pend.ch == ch {
		if co.pend.taken {
			co.pend = nil
			return true
		}
		if ch.closed {
			co.pend = nil
			panic(targetPanic{iface{t: m.P.rtErrType, v: "send on closed channel"}})
		}
		return false
	}
	if ch.closed {
		panic(targetPanic{iface{t: m.P.rtErrType, v: "send on closed channel"}})
	}
	if len(ch.buf) < ch.cap {
		ch.buf = append(ch.buf, copyVal(v))
		return true
	}
	p := &pendingSend{ch: ch, v: copyVal(v), co: co}
	ch.sendq = append(ch.sendq, p)
	co.pend = p
	return false
}

func (ch *chanObj) recvReady() bool {
	return ch != nil && (len(ch.buf) > 0 || len(ch.sendq) > 0 || ch.closed)
}

// take removes one value; caller checked recvReady.
func (ch *chanObj) take() (value, bool) {
	if len(ch.buf) > 0 {
		v := ch.buf[0]
		ch.buf = ch.buf[1:]
		if len(ch.sendq) > 0 {
			p := ch.sendq[0]
			ch.sendq = ch.sendq[1:]
			ch.buf = append(ch.buf, p.v)
			p.taken = true
		}
		return v, true
	}
	if len(ch.sendq) > 0 {
		p := ch.sendq[0]
		ch.sendq = ch.sendq[1:]
		p.taken = true
		return p.v, true
	}
	return nil, false // closed
}

// chanRecv returns (tuple{v, ok}, true) or (_, false) to block.
func (m *Machine) chanRecv(co *coroutine, ch *chanObj, chT types.Type) (value, bool) {
	if !ch.recvReady() {
		return nil, false
	}
	v, ok := ch.take()
	if !ok {
		v = zero(chT.Underlying().(*types.Chan).Elem())
	}
	return tuple{v, ok}, true
}

func (m *Machine) chanClose(ch *chanObj) {
	if ch == nil {
		panic(targetPanic{iface{t: m.P.rtErrType, v: "close of nil channel"}})
	}
	if ch.closed {
		panic(targetPanic{iface{t: m.P.rtErrType, v: "close of closed channel"}})
	}
	ch.closed = true
}

// doSelect implements ssa.Select. Returns (result, true) or (_, false) to block.
func (m *Machine) doSelect(co *coroutine, fr *frame, instr *ssa.Select) (value, bool) {
	var ready []int
	for i, st := range instr.States {
		ch, _ := m.get(fr, st.Chan).(*chanObj)
		if ch == nil {
			continue
		}
		if st.Dir == types.RecvOnly {
			if ch.recvReady() {
				ready = append(ready, i)
			}
		} else {
			if ch.closed {
				ready = append(ready, i) // will panic
			} else if len(ch.buf) < ch.cap {
				ready = append(ready, i)
			} else if ch.cap == 0 {
				// rendezvous send inside select: ready only if a receiver waits; not modelled
				m.unsupported("select with send on unbuffered channel")
			}
		}
	}
	chosen := -1
	if len(ready) == 0 {
		if instr.Blocking {
			return nil, false
		}
	} else {
		chosen = ready[m.pureChoice(len(ready))]
	}
	r := tuple{uint64(int64(chosen)), false}
	recvOk := false
	var recvVals []value
	for i, st := range instr.States {
		if st.Dir == types.RecvOnly {
			var v value
			if i == chosen {
				ch := m.get(fr, st.Chan).(*chanObj)
				var ok bool
				v, ok = ch.take()
				recvOk = ok
				if !ok {
					v = zero(st.Chan.Type().Underlying().(*types.Chan).Elem())
				}
			} else {
				v = zero(st.Chan.Type().Underlying().(*types.Chan).Elem())
			}
			recvVals = append(recvVals, v)
		} else if i == chosen {
			ch := m.get(fr, st.Chan).(*chanObj)
			if ch.closed {
				panic(targetPanic{iface{t: m.P.rtErrType, v: "send on closed channel"}})
			}
			ch.buf = append(ch.buf, copyVal(m.get(fr, st.Send)))
		}
	}
	r[1] = recvOk
	r = append(r, recvVals...)
	return r, true
}
