//go:build verif

package pfcp

import (
	"github.com/wmnsk/go-pfcp/ie"

	"github.com/free5gc/go-upf/internal/report"
)

// C11: UR-SEQN counts each URR's reports 0,1,2,... without gap or repeat, over the three
// carriers (Session Report Request, Modification Response, Deletion Response).
// Ghost: Next[urr incarnation] (DESIGN.md Appendix F.4). The model data plane is relaxed:
// 0..2 reports per query/update, 1..2 per removal.

type zzSeqWorld struct {
	s     *PfcpServer
	dp    *zzDP
	sess  *Sess
	urr   [2]bool
	next  [2]uint32
	pdr   bool // PDR 1 exists and references URR 1
	seq   uint32
	sent  int
	ended bool
}

func zzMkSeq() *zzSeqWorld {
	w := &zzSeqWorld{}
	w.dp = &zzDP{relaxed: true}
	w.s = zzNewServer(w.dp)
	w.dp.ln = &w.s.lnode
	n := w.s.NewNode(zzNodeA, zzAddrA, w.dp)
	w.s.rnodes[zzNodeA] = n
	w.sess = n.NewSess(nondetU64("cpseid"))
	// start: URR 1 exists with an arbitrary (symbolic) sequence position, referenced by PDR 1
	w.urr[0] = true
	w.next[0] = nondetU32("seqn0")
	info := &URRInfo{SEQN: w.next[0], refPdrNum: 1}
	info.VOLUM = true
	w.sess.URRIDs[1] = info
	w.sess.PDRIDs[1] = &PDRInfo{RelatedURRIDs: map[uint32]struct{}{1: {}}}
	w.pdr = true
	w.dp.rules = append(w.dp.rules, zzRuleRec{1, zzURR, 1, zzPresent}, zzRuleRec{1, zzPDR, 1, zzPresent})
	return w
}

// scan checks every usage report sent since the last call against the ghost counters.
func (w *zzSeqWorld) scan(tag string) {
	n := zzSentCount()
	for i := w.sent; i < n; i++ {
		b := zzSentBytes(i)
		h := zzParseHdr(b)
		zzAssert("C11.datagram-wellformed."+tag, h.ok)
		var t uint16
		switch h.typ {
		case 56:
			t = 80
		case 53:
			t = 78
		case 55:
			t = 79
		default:
			continue
		}
		for _, r := range zzUsageReports(b, h, t) {
			zzAssert("C11.report-has-seqn."+tag, r.hasURR && r.hasSeqn)
			k := zzSlot(r.urr, 2)
			zzAssert("C11.report-known-urr."+tag, k >= 0)
			if k < 0 {
				continue
			}
			zzAssert("C11.seqn-is-next."+tag, r.seqn == w.next[k])
			w.next[k]++
			zzCover("C11.report-seen")
		}
	}
	w.sent = n
}

func (w *zzSeqWorld) step() {
	w.seq++
	op := nondetChoice("op", 7)
	switch op {
	case 0: // kernel / periodic notification with 1..2 reports naming arbitrary URRs
		k := 1 + nondetChoice("batch", 2)
		var rs []report.Report
		for i := 0; i < k; i++ {
			r := report.USAReport{URRID: nondetU32("rep-urr")}
			if nondetChoice("perio", 2) == 1 {
				r.USARTrigger.Flags |= report.USAR_TRIG_PERIO
			} else {
				r.USARTrigger.Flags |= report.USAR_TRIG_VOLTH
			}
			rs = append(rs, r)
		}
		sr := report.SessReport{SEID: 1, Reports: rs}
		w.s.ServeReport(&sr)
		w.scan("notify")
	case 1:
		u := nondetU32("urr")
		zzDeliver(w.s, zzModReq(1, w.seq, ie.NewQueryURR(ie.NewURRID(u))), zzAddrA, w.seq)
		w.scan("query")
	case 2:
		u := nondetU32("urr")
		zzDeliver(w.s, zzModReq(1, w.seq, ie.NewUpdateURR(ie.NewURRID(u), ie.NewMeasurementMethod(0, 1, 0))), zzAddrA, w.seq)
		w.scan("update")
	case 3:
		u := nondetU32("urr")
		zzDeliver(w.s, zzModReq(1, w.seq, ie.NewRemoveURR(ie.NewURRID(u))), zzAddrA, w.seq)
		w.scan("remove")
		if k := zzSlot(u, 2); k >= 0 {
			w.urr[k] = false
		}
	case 4:
		k := nondetChoice("new-urr", 2)
		zzAssume(!w.urr[k])
		zzDeliver(w.s, zzModReq(1, w.seq, ie.NewCreateURR(ie.NewURRID(uint32(k+1)), ie.NewMeasurementMethod(0, 1, 0), ie.NewReportingTriggers(0x02, 0x00))), zzAddrA, w.seq)
		w.urr[k] = true
		w.next[k] = 0 // a re-created URR starts again at 0
		w.scan("create")
		zzCover("C11.recreated")
	case 5:
		zzAssume(w.pdr)
		zzDeliver(w.s, zzModReq(1, w.seq, ie.NewRemovePDR(ie.NewPDRID(1))), zzAddrA, w.seq)
		w.pdr = false
		w.scan("removepdr")
	case 6:
		zzDeliver(w.s, zzDelReq(1, w.seq), zzAddrA, w.seq)
		w.scan("delete")
		w.ended = true
	}
}

func zzC11History(depth int) {
	w := zzMkSeq()
	for i := 0; i < depth; i++ {
		if w.ended {
			break
		}
		w.step()
	}
	zzCover("C11.hist.done")
}

// two sessions, one URR each with the same id: counters are independent
func zzC11TwoSessions() {
	dp := &zzDP{relaxed: true}
	s := zzNewServer(dp)
	dp.ln = &s.lnode
	n := s.NewNode(zzNodeA, zzAddrA, dp)
	s.rnodes[zzNodeA] = n
	var next [2]uint32
	for k := 0; k < 2; k++ {
		ss := n.NewSess(uint64(0x100 + k))
		next[k] = nondetU32("seqn")
		info := &URRInfo{SEQN: next[k]}
		info.VOLUM = true
		ss.URRIDs[1] = info
		dp.rules = append(dp.rules, zzRuleRec{uint64(k + 1), zzURR, 1, zzPresent})
	}
	sent := 0
	for step := 0; step < 2; step++ {
		x := uint64(1 + nondetChoice("seid", 2))
		if nondetChoice("how", 2) == 0 {
			sr := report.SessReport{SEID: x, Reports: []report.Report{report.USAReport{URRID: 1}}}
			s.ServeReport(&sr)
		} else {
			zzDeliver(s, zzModReq(x, uint32(step+1), ie.NewQueryURR(ie.NewURRID(1))), zzAddrA, uint32(step+1))
		}
		for ; sent < zzSentCount(); sent++ {
			b := zzSentBytes(sent)
			h := zzParseHdr(b)
			t := uint16(78)
			if h.typ == 56 {
				t = 80
			}
			// the peer's SEID identifies the session: 0x100 / 0x101
			k := int(h.seid - 0x100)
			zzAssert("C11.two.addressed", h.seid == 0x100+(x-1))
			for _, r := range zzUsageReports(b, h, t) {
				zzAssert("C11.two.seqn-is-next", r.seqn == next[k])
				next[k]++
			}
		}
	}
	zzCover("C11.two.done")
}

func ZZ_C11_History()     { zzC11History(3 + zzTier()) }
func ZZ_C11_TwoSessions() { zzC11TwoSessions() }

// A batch handed to ServeReport may mix usage reports with downlink-data reports (the handler's
// interface allows it, although neither producer in the tree builds such a batch). Whatever the
// handler then does with the usage reports - send them or drop the batch - the counter of a URR
// moves only for Usage Report IEs that are actually emitted: the reports before and after the mixed
// batch are numbered consecutively with whatever the mixed batch itself put on the wire.
func zzC11MixedBatch() {
	w := zzMkSeq()
	usa := func() report.Report {
		r := report.USAReport{URRID: 1}
		r.USARTrigger.Flags = report.USAR_TRIG_VOLTH
		return r
	}
	if nondetBool("one-before") {
		w.s.ServeReport(&report.SessReport{SEID: 1, Reports: []report.Report{usa()}})
		w.scan("mixed.before")
	}
	dld := report.DLDReport{PDRID: 1, Action: nondetU16("dld-action"), BufPkt: nondetBytes("dld-packet", nondetChoice("dld-len", 2))}
	var rs []report.Report
	switch nondetChoice("dld-position", 3) {
	case 0:
		rs = []report.Report{dld, usa()}
	case 1:
		rs = []report.Report{usa(), dld}
	case 2:
		rs = []report.Report{usa(), dld, usa()}
	}
	w.s.ServeReport(&report.SessReport{SEID: 1, Reports: rs})
	w.scan("mixed.batch")
	w.s.ServeReport(&report.SessReport{SEID: 1, Reports: []report.Report{usa()}})
	w.scan("mixed.after")
	zzCover("C11.mixed.done")
}

func ZZ_C11_MixedBatch() { zzC11MixedBatch() }
