package nl

import (
	"syscall"
	"unsafe"
)

type Request struct {
	Header    Header
	Iovs      []syscall.Iovec
	ReplyType map[uint16]struct{}
	// Bufs mirrors the payload iovecs as byte slices (verification overlay: lets the
	// stubbed kernel read the request without unsafe pointer arithmetic)
	Bufs [][]byte
}

func NewRequest(typ, flags int) *Request {
	r := new(Request)
	r.Header.Len = syscall.SizeofNlMsghdr
	r.Header.Type = uint16(typ)
	r.Header.Flags = syscall.NLM_F_REQUEST | uint16(flags)
	r.Iovs = make([]syscall.Iovec, 1)
	r.Iovs[0].Base = (*byte)(unsafe.Pointer(&r.Header))
	r.Iovs[0].Len = syscall.SizeofNlMsghdr
	r.ReplyType = make(map[uint16]struct{})
	r.AppendReplyType(typ)
	return r
}

func (r *Request) Append(e Encoder) error {
	l := e.Len()
	if l == 0 {
		return nil
	}
	b := make([]byte, l)
	_, err := e.Encode(b)
	if err != nil {
		return err
	}
	r.AppendBytes(b)
	return nil
}

func (r *Request) AppendBytes(b []byte) {
	l := len(b)
	if l == 0 {
		return
	}
	r.Header.Len += uint32(l)
	iov := syscall.Iovec{Base: &b[0], Len: uint64(l)}
	r.Iovs = append(r.Iovs, iov)
	r.Bufs = append(r.Bufs, b)
}

func (r *Request) AppendPointer(p unsafe.Pointer, length int) {
	r.Header.Len += uint32(length)
	iov := syscall.Iovec{
		Base: (*byte)(p),
		Len:  uint64(length),
	}
	r.Iovs = append(r.Iovs, iov)
}

func (r *Request) AppendReplyType(typ int) {
	r.ReplyType[uint16(typ)] = struct{}{}
}

func (r *Request) Commit(seq int) {
	r.Header.Seq = uint32(seq)
}

func (r *Request) ContainsReplyType(typ int) bool {
	_, ok := r.ReplyType[uint16(typ)]
	return ok
}

func (r *Request) NeedAck() bool {
	if r.Header.Flags&syscall.NLM_F_ACK != 0 {
		return true
	}
	if r.Header.Flags&syscall.NLM_F_DUMP != 0 {
		return true
	}
	return false
}
