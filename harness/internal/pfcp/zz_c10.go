//go:build verif

package pfcp

import (
	"time"

	"github.com/wmnsk/go-pfcp/ie"

	"github.com/free5gc/go-upf/internal/report"
)

// C10 (PFCP side): every usage report for a live session and a known URR is delivered to the owning
// SMF with URR id, trigger, start/end time and counters exactly as measured, with the measurement
// IEs selected by the URR's method / information; unknown sessions or URRs are dropped without
// disturbing the rest of the batch.

type zzMeasured struct {
	urr   uint32
	trig  uint32
	vol   [6]uint64
	dur   uint64 // ns
	start int64  // unix seconds
	end   int64
}

func zzMkMeasured() zzMeasured {
	m := zzMeasured{urr: nondetU32("urr"), trig: nondetU32("trigger") & 0x3fffff}
	for i := range m.vol {
		m.vol[i] = nondetU64("counter")
	}
	k := nondetChoice("instants", 2)
	// the duration goes through float64 seconds in go-pfcp: concrete samples
	m.dur = []uint64{0, 90e9}[k]
	m.start = []int64{1790812800, 2085978495}[k]
	m.end = m.start + []int64{7, 0}[k]
	return m
}

func (m zzMeasured) usar() report.USAReport {
	return report.USAReport{
		URRID:       m.urr,
		USARTrigger: report.UsageReportTrigger{Flags: m.trig},
		VolumMeasure: report.VolumeMeasure{TotalVolume: m.vol[0], UplinkVolume: m.vol[1], DownlinkVolume: m.vol[2],
			TotalPktNum: m.vol[3], UplinkPktNum: m.vol[4], DownlinkPktNum: m.vol[5]},
		DuratMeasure: report.DurationMeasure{DurationValue: m.dur},
		StartTime:    time.Unix(m.start, 0),
		EndTime:      time.Unix(m.end, 0),
	}
}

type zzURRConf struct {
	durat, volum, event, mnop bool
}

// checkUR compares one decoded Usage Report IE with what was measured.
func zzCheckUR(u zzUR, m zzMeasured, c zzURRConf, extraTrig uint32, tag string) {
	zzAssert("C10.ur.urr-id."+tag, u.hasURR && u.urr == m.urr)
	want := m.trig | extraTrig
	zzAssert("C10.ur.trigger."+tag, u.hasTrig && uint32(u.trig[0])|uint32(u.trig[1])<<8|uint32(u.trig[2])<<16 == want)
	// start / end time present unless Start of Traffic, Stop of Traffic or MAC Addresses Reporting
	noTimes := want&(report.USAR_TRIG_START|report.USAR_TRIG_STOPT|report.USAR_TRIG_MACAR) != 0
	zzAssert("C10.ur.times.presence."+tag, u.hasST == !noTimes && u.hasET == !noTimes)
	if !noTimes && u.hasST && u.hasET {
		zzAssert("C10.ur.start-time."+tag, u.st == uint32(m.start+2208988800))
		zzAssert("C10.ur.end-time."+tag, u.et == uint32(m.end+2208988800))
	}
	zzAssert("C10.ur.volume.presence."+tag, u.hasVol == c.volum)
	if c.volum && u.hasVol {
		n := 3
		flags := byte(0x07)
		if c.mnop {
			n, flags = 6, 0x3f
		}
		zzAssert("C10.ur.volume.len."+tag, len(u.vol) == 1+8*n)
		if len(u.vol) == 1+8*n {
			zzAssert("C10.ur.volume.flags."+tag, u.vol[0] == flags)
			for i := 0; i < n; i++ {
				var v uint64
				for j := 0; j < 8; j++ {
					v = v<<8 | uint64(u.vol[1+8*i+j])
				}
				zzAssert("C10.ur.volume.counter."+tag, v == m.vol[i])
			}
		}
	}
	zzAssert("C10.ur.duration.presence."+tag, u.hasDur == c.durat)
	if c.durat && u.hasDur {
		zzAssert("C10.ur.duration."+tag, uint64(u.dur) == m.dur/1e9)
	}
}

func zzC10Notify() {
	dp := &zzDP{}
	s := zzNewServer(dp)
	dp.ln = &s.lnode
	ni := nondetChoice("owner", 2)
	n := s.NewNode(zzNodeID(ni), zzAddr(ni), dp)
	s.rnodes[zzNodeID(ni)] = n
	cp := nondetU64("cpseid")
	sess := n.NewSess(cp)
	var conf [2]zzURRConf
	for k := 0; k < 2; k++ {
		conf[k] = zzURRConf{durat: nondetBool("durat"), volum: nondetBool("volum"), event: nondetBool("event"), mnop: nondetBool("mnop")}
		info := &URRInfo{SEQN: uint32(3 * k)}
		info.DURAT, info.VOLUM, info.EVENT, info.MNOP = conf[k].durat, conf[k].volum, conf[k].event, conf[k].mnop
		sess.URRIDs[uint32(k+1)] = info
	}
	nrep := 1 + nondetChoice("batch", 2+zzTier())
	var ms []zzMeasured
	var rs []report.Report
	for i := 0; i < nrep; i++ {
		m := zzMkMeasured()
		ms = append(ms, m)
		rs = append(rs, m.usar())
	}
	seid := nondetU64("seid")
	s.ServeReport(&report.SessReport{SEID: seid, Reports: rs})
	if seid != sess.LocalID {
		zzAssert("C10.notify.unknown-session-dropped", zzSentCount() == 0)
		zzCover("C10.notify.unknown-session")
		return
	}
	zzAssert("C10.notify.one-request", zzSentCount() == 1)
	if zzSentCount() != 1 {
		return
	}
	b := zzSentBytes(0)
	zzObserve("request", b)
	h := zzParseHdr(b)
	zzAssert("C10.notify.report-request", h.ok && h.typ == 56)
	zzAssert("C10.notify.peers-seid", h.s && h.seid == cp)
	zzAssert("C10.notify.to-owner", zzSentAddr(0).String() == zzAddr(ni).String())
	rt, okr := zzFindIE(b, h, 39)
	zzAssert("C10.notify.report-type-usar", okr && len(rt) == 1 && rt[0] == 0x02)
	urs := zzUsageReports(b, h, 80)
	// one Usage Report per report whose URR is known, in order
	k := 0
	for i := 0; i < nrep; i++ {
		slot := zzSlot(ms[i].urr, 2)
		if slot < 0 {
			zzCover("C10.notify.unknown-urr-dropped")
			continue
		}
		zzAssert("C10.notify.report-present", k < len(urs))
		if k < len(urs) {
			zzCheckUR(urs[k], ms[i], conf[slot], 0, "notify")
		}
		k++
	}
	zzAssert("C10.notify.no-extra-report", len(urs) == k)
	zzCover("C10.notify.done")
}

// usage returned by query / update / removal travels in the Modification Response
func zzC10ModRsp() {
	dp := &zzDP{}
	s := zzNewServer(dp)
	dp.ln = &s.lnode
	n := s.NewNode(zzNodeA, zzAddrA, dp)
	s.rnodes[zzNodeA] = n
	cp := nondetU64("cpseid")
	sess := n.NewSess(cp)
	conf := zzURRConf{durat: nondetBool("durat"), volum: nondetBool("volum"), mnop: nondetBool("mnop")}
	info := &URRInfo{}
	info.DURAT, info.VOLUM, info.MNOP = conf.durat, conf.volum, conf.mnop
	sess.URRIDs[1] = info
	dp.rules = append(dp.rules, zzRuleRec{1, zzURR, 1, zzPresent})
	m := zzMkMeasured()
	zzAssume(m.urr == 1)
	dp.canned = []report.USAReport{m.usar()}
	how := nondetChoice("how", 3)
	var one *ie.IE
	extra := uint32(0)
	switch how {
	case 0:
		one = ie.NewQueryURR(ie.NewURRID(1))
		extra = report.USAR_TRIG_IMMER
	case 1:
		one = ie.NewRemoveURR(ie.NewURRID(1))
		extra = report.USAR_TRIG_TERMR
	case 2:
		one = nil
	}
	typ, ur := uint8(53), uint16(78)
	if one != nil {
		zzDeliver(s, zzModReq(1, 9, one), zzAddrA, 9)
	} else {
		zzDeliver(s, zzDelReq(1, 9), zzAddrA, 9)
		typ, ur = 55, 79
		extra = report.USAR_TRIG_TERMR
	}
	zzAssert("C10.rsp.one", zzSentCount() == 1)
	if zzSentCount() != 1 {
		return
	}
	b := zzSentBytes(0)
	h := zzParseHdr(b)
	zzAssert("C10.rsp.type", h.ok && h.typ == typ && h.seid == cp)
	urs := zzUsageReports(b, h, ur)
	zzAssert("C10.rsp.one-report", len(urs) == 1)
	if len(urs) == 1 {
		zzCheckUR(urs[0], m, conf, extra, "rsp")
	}
	zzCover("C10.rsp.done")
}

func ZZ_C10_Notify() { zzC10Notify() }
func ZZ_C10_ModRsp() { zzC10ModRsp() }

// The owner of a session can change while it lives: a Session Modification Request carrying another
// Node ID hands the session to that control-plane node (takeover). Reports generated before go to
// the old owner, reports generated afterwards to the new one - whatever was sent earlier.
func zzC10AfterTakeover() {
	dp := &zzDP{}
	s := zzNewServer(dp)
	dp.ln = &s.lnode
	n := s.NewNode(zzNodeA, zzAddrA, dp)
	s.rnodes[zzNodeA] = n
	cp := nondetU64("cpseid")
	sess := n.NewSess(cp)
	info := &URRInfo{}
	info.VOLUM = true
	sess.URRIDs[1] = info
	m := zzMkMeasured()
	zzAssume(m.urr == 1)
	early := nondetChoice("reports-before-takeover", 3)
	for i := 0; i < early; i++ {
		s.ServeReport(&report.SessReport{SEID: sess.LocalID, Reports: []report.Report{m.usar()}})
		zzAssert("C10.takeover.before.one-request", zzSentCount() == i+1)
		if zzSentCount() == i+1 {
			zzAssert("C10.takeover.before.to-old-owner", zzSentAddr(i).String() == zzAddrA.String())
		}
	}
	// takeover by node B (the request comes from B's address and names B)
	zzDeliver(s, zzModReq(sess.LocalID, 9, ie.NewNodeID(zzNodeB, "", "")), zzAddrB, 9)
	base := zzSentCount()
	zzAssert("C10.takeover.answered", base == early+1)
	s.ServeReport(&report.SessReport{SEID: sess.LocalID, Reports: []report.Report{m.usar()}})
	zzAssert("C10.takeover.after.one-request", zzSentCount() == base+1)
	if zzSentCount() == base+1 {
		b := zzSentBytes(base)
		h := zzParseHdr(b)
		zzAssert("C10.takeover.after.report-request", h.ok && h.typ == 56 && h.s && h.seid == cp)
		zzAssert("C10.takeover.after.to-new-owner", zzSentAddr(base).String() == zzAddrB.String())
		urs := zzUsageReports(b, h, 80)
		zzAssert("C10.takeover.after.one-usage-report", len(urs) == 1)
	}
	zzCover("C10.takeover.done")
}

func ZZ_C10_AfterTakeover() { zzC10AfterTakeover() }

// The life of a URR before the report: a URR id can be removed and provisioned again, queried and
// updated, its PDR can go away - and after any such history a usage report the data plane produces
// for a URR that exists NOW must still reach the SMF (a report for the earlier incarnation may have
// been the last thing the bookkeeping saw). The data plane is the relaxed one: a query, an update or
// a removal yields 0 or 1 report (the repository's no-op driver and gtp5g on an empty answer yield
// none).
func zzC10AfterHistory(depth int) {
	w := zzMkSeq()
	w.dp.repCap = 1
	for i := 0; i < depth; i++ {
		w.seq++
		switch nondetChoice("op", 5) {
		case 0:
			zzDeliver(w.s, zzModReq(1, w.seq, ie.NewQueryURR(ie.NewURRID(1))), zzAddrA, w.seq)
		case 1:
			zzDeliver(w.s, zzModReq(1, w.seq, ie.NewUpdateURR(ie.NewURRID(1), ie.NewMeasurementMethod(0, 1, 0))), zzAddrA, w.seq)
		case 2:
			zzDeliver(w.s, zzModReq(1, w.seq, ie.NewRemoveURR(ie.NewURRID(1))), zzAddrA, w.seq)
			w.urr[0] = false
		case 3:
			zzAssume(!w.urr[0])
			zzDeliver(w.s, zzModReq(1, w.seq, ie.NewCreateURR(ie.NewURRID(1), ie.NewMeasurementMethod(0, 1, 0), ie.NewReportingTriggers(0x02, 0x00))), zzAddrA, w.seq)
			w.urr[0] = true
			zzCover("C10.history.recreated")
		case 4:
			zzAssume(w.pdr)
			zzDeliver(w.s, zzModReq(1, w.seq, ie.NewRemovePDR(ie.NewPDRID(1))), zzAddrA, w.seq)
			w.pdr = false
		}
	}
	if !w.urr[0] {
		zzCover("C10.history.urr-gone")
		return // a report for a URR that no longer exists: covered by ZZ_C10_Notify (dropped)
	}
	base := zzSentCount()
	r := report.USAReport{URRID: 1}
	r.USARTrigger.Flags = report.USAR_TRIG_PERIO
	r.VolumMeasure.TotalVolume = nondetU64("counter")
	w.s.ServeReport(&report.SessReport{SEID: 1, Reports: []report.Report{r}})
	zzAssert("C10.history.report-sent", zzSentCount() == base+1)
	if zzSentCount() == base+1 {
		b := zzSentBytes(base)
		h := zzParseHdr(b)
		zzAssert("C10.history.report-request", h.ok && h.typ == 56 && h.s && h.seid == w.sess.RemoteID)
		urs := zzUsageReports(b, h, 80)
		zzAssert("C10.history.one-usage-report", len(urs) == 1)
		if len(urs) == 1 {
			zzAssert("C10.history.names-the-urr", urs[0].hasURR && urs[0].urr == 1)
			if urs[0].hasVol && len(urs[0].vol) >= 9 {
				var v uint64
				for j := 0; j < 8; j++ {
					v = v<<8 | uint64(urs[0].vol[1+j])
				}
				zzAssert("C10.history.total-volume", v == r.VolumMeasure.TotalVolume)
			}
		}
	}
	// ... and the one after it as well
	w.s.ServeReport(&report.SessReport{SEID: 1, Reports: []report.Report{r}})
	zzAssert("C10.history.next-report-sent", zzSentCount() == base+2)
	zzCover("C10.history.done")
}

func ZZ_C10_AfterHistory() { zzC10AfterHistory(3 + zzTier()) }

// The measurement IEs of a report are selected by the URR's CURRENT configuration, as the requests
// left it: Create URR sets measurement method and information; an Update URR changes the method only
// if it carries a Measurement Method IE and the information only if it carries a Measurement
// Information IE - what an update does not mention stays as it was.
func zzC10Configured() {
	dp := &zzDP{}
	s := zzNewServer(dp)
	dp.ln = &s.lnode
	n := s.NewNode(zzNodeA, zzAddrA, dp)
	s.rnodes[zzNodeA] = n
	cp := nondetU64("cpseid")
	sess := n.NewSess(cp)
	bit := func(b bool) int {
		if b {
			return 1
		}
		return 0
	}
	conf := zzURRConf{durat: nondetBool("durat"), volum: nondetBool("volum")}
	kids := []*ie.IE{ie.NewURRID(1), ie.NewMeasurementMethod(0, bit(conf.volum), bit(conf.durat)), ie.NewReportingTriggers(0x02, 0x00)}
	if nondetBool("create-has-information") {
		conf.mnop = nondetBool("mnop")
		kids = append(kids, ie.NewMeasurementInformation(uint8(bit(conf.mnop))<<4))
	}
	zzDeliver(s, zzModReq(sess.LocalID, 5, ie.NewCreateURR(kids...)), zzAddrA, 5)
	nupd := nondetChoice("updates", 2+zzTier())
	for i := 0; i < nupd; i++ {
		ukids := []*ie.IE{ie.NewURRID(1)}
		if nondetBool("update-has-method") {
			conf.durat, conf.volum = nondetBool("durat"), nondetBool("volum")
			ukids = append(ukids, ie.NewMeasurementMethod(0, bit(conf.volum), bit(conf.durat)))
		}
		if nondetBool("update-has-information") {
			conf.mnop = nondetBool("mnop")
			ukids = append(ukids, ie.NewMeasurementInformation(uint8(bit(conf.mnop))<<4))
		} else {
			// an update that only moves a threshold
			ukids = append(ukids, ie.NewVolumeThreshold(1, 5000, 0, 0))
		}
		zzDeliver(s, zzModReq(sess.LocalID, uint32(6+i), ie.NewUpdateURR(ukids...)), zzAddrA, uint32(6+i))
	}
	base := zzSentCount()
	zzAssert("C10.configured.requests-answered", base == 1+nupd)
	// one report with a concrete cause and instants; the six counters symbolic
	m := zzMeasured{urr: 1, trig: report.USAR_TRIG_VOLTH, dur: 90e9, start: 1790812800, end: 1790812807}
	for i := range m.vol {
		m.vol[i] = nondetU64("counter")
	}
	s.ServeReport(&report.SessReport{SEID: sess.LocalID, Reports: []report.Report{m.usar()}})
	zzAssert("C10.configured.one-request", zzSentCount() == base+1)
	if zzSentCount() == base+1 {
		b := zzSentBytes(base)
		h := zzParseHdr(b)
		zzAssert("C10.configured.report-request", h.ok && h.typ == 56 && h.s && h.seid == cp)
		urs := zzUsageReports(b, h, 80)
		zzAssert("C10.configured.one-usage-report", len(urs) == 1)
		if len(urs) == 1 {
			zzCheckUR(urs[0], m, conf, 0, "configured")
		}
	}
	zzCover("C10.configured.done")
}

func ZZ_C10_Configured() { zzC10Configured() }
