package smt

import (
	"math/rand"
	"os/exec"
	"testing"

	"gosymx/term"
)

// Printer + solver self-test: for random terms t with reference value v under an assignment env,
// the solver must find (env and t != v) unsatisfiable and (env and t == v) satisfiable. This ties
// the SMT-LIB text the engine emits to the reference semantics of the term language.
func TestPrinterAgainstSolver(t *testing.T) {
	if _, err := exec.LookPath("z3"); err != nil {
		t.Skip("z3 not installed")
	}
	s, err := New([]string{"z3", "-in"}, 20000)
	if err != nil {
		t.Fatal(err)
	}
	defer s.Close()
	n := 1500
	if testing.Short() {
		n = 200
	}
	for seed := 0; seed < n; seed++ {
		g := &term.RandGen{F: term.NewFactory(), R: rand.New(rand.NewSource(int64(1000000 + seed))), Env: map[string]uint64{}}
		F := g.F
		var neq, eq *term.Term
		if seed%2 == 0 {
			w := term.Widths[g.R.Intn(len(term.Widths))]
			tm, ref := g.BV(1+g.R.Intn(4), w)
			eq = F.Eq(tm, F.Const(w, ref))
		} else {
			tm, ref := g.Bool(1 + g.R.Intn(4))
			eq = F.Eq(tm, F.Bool(ref))
		}
		neq = F.BNot(eq)
		s.Reset()
		envc := F.True()
		for _, v := range term.VarsOf(eq) {
			envc = F.BAnd(envc, F.Eq(v, F.Const(v.W, g.Env[v.Name])))
		}
		s.Assert(envc)
		s.Push()
		s.Assert(neq)
		if r := s.Check(); r != Unsat {
			t.Fatalf("seed %d: t != ref is %v (want unsat): %s under %v", seed, r, eq, g.Env)
		}
		s.Pop()
		s.Assert(eq)
		if r := s.Check(); r != Sat {
			t.Fatalf("seed %d: t == ref is %v (want sat): %s under %v", seed, r, eq, g.Env)
		}
	}
}
