//go:build verif

package pfcp

import (
	"net"
	"github.com/wmnsk/go-pfcp/ie"
	"github.com/wmnsk/go-pfcp/message"
)

// C01: data-plane rules never outlive, escape or pre-date their PFCP session.
// Bounded histories through the real handlers against the model data plane, with a
// symbolic fault on every create/update/query (DESIGN.md 6/C01, Appendix F.1).

const zzMaxSess = 4

type zzGhost struct {
	assoc [2]bool
	live  [zzMaxSess]bool
	node  [zzMaxSess]int
	cp    [zzMaxSess]uint64
	alt   bool // node A currently talks from its other source address (zzAddrA2)
}

// addr: the source address node n currently uses.
func (w *zzWorld) addr(n int) net.Addr {
	if n == 0 && w.g.alt {
		return zzAddrA2
	}
	return zzAddr(n)
}

type zzWorld struct {
	s    *PfcpServer
	dp   *zzDP
	g    zzGhost
	seq  uint32
	sent int
	kind int // rule-kind shard
}

func zzNewWorld(kind int, faults bool) *zzWorld {
	w := &zzWorld{kind: kind}
	w.dp = &zzDP{faults: faults}
	w.s = zzNewServer(w.dp)
	w.dp.ln = &w.s.lnode
	return w
}

func (w *zzWorld) nextSeq() uint32 { w.seq++; return w.seq }

// newResponses returns the datagrams sent since the last call.
func (w *zzWorld) newResponses() [][]byte {
	var out [][]byte
	n := zzSentCount()
	for i := w.sent; i < n; i++ {
		out = append(out, zzSentBytes(i))
	}
	w.sent = n
	return out
}

// rule id: one of two fixed ids or an unconstrained one
func zzRuleID(name string) uint32 {
	// unconstrained: the solver explores "equals an existing id" vs "differs" wherever the code compares
	return nondetU32(name)
}

const zzMixed = 9 // shard: PDRs that reference URRs, and URRs

// zzShardKind resolves the rule kind of one IE in a shard.
func zzShardKind(kind int) int {
	if kind != zzMixed {
		return kind
	}
	if nondetChoice("mixed-kind", 2) == 0 {
		return zzPDR
	}
	return zzURR
}

func zzCreateIE(kind int, id uint32) *ie.IE {
	if kind == zzMixed+1 {
		// PDR referencing a URR with a symbolic id
		return ie.NewCreatePDR(ie.NewPDRID(uint16(id)), ie.NewPrecedence(1), ie.NewURRID(nondetU32("pdr-urr")))
	}
	switch kind {
	case zzPDR:
		return ie.NewCreatePDR(ie.NewPDRID(uint16(id)), ie.NewPrecedence(1))
	case zzFAR:
		return ie.NewCreateFAR(ie.NewFARID(id), ie.NewApplyAction(2))
	case zzQER:
		return ie.NewCreateQER(ie.NewQERID(id), ie.NewGateStatus(0, 0))
	case zzURR:
		return ie.NewCreateURR(ie.NewURRID(id), ie.NewMeasurementMethod(0, 1, 0), ie.NewReportingTriggers(0x02, 0x00))
	}
	return ie.NewCreateBAR(ie.NewBARID(uint8(id)))
}

func zzUpdateIE(kind int, id uint32) *ie.IE {
	switch kind {
	case zzPDR:
		return ie.NewUpdatePDR(ie.NewPDRID(uint16(id)), ie.NewPrecedence(2))
	case zzFAR:
		return ie.NewUpdateFAR(ie.NewFARID(id), ie.NewApplyAction(1))
	case zzQER:
		return ie.NewUpdateQER(ie.NewQERID(id), ie.NewGateStatus(1, 1))
	case zzURR:
		return ie.NewUpdateURR(ie.NewURRID(id), ie.NewMeasurementMethod(0, 1, 0))
	}
	return ie.NewUpdateBARWithinSessionModificationRequest(ie.NewBARID(uint8(id)))
}

func zzRemoveIE(kind int, id uint32) *ie.IE {
	switch kind {
	case zzPDR:
		return ie.NewRemovePDR(ie.NewPDRID(uint16(id)))
	case zzFAR:
		return ie.NewRemoveFAR(ie.NewFARID(id))
	case zzQER:
		return ie.NewRemoveQER(ie.NewQERID(id))
	case zzURR:
		return ie.NewRemoveURR(ie.NewURRID(id))
	}
	return ie.NewRemoveBAR(ie.NewBARID(uint8(id)))
}

// zzIDMask: the id width of the kind on the wire (PDR 16 bit, BAR 8 bit)
func zzIDMask(kind int, id uint32) uint32 {
	switch kind {
	case zzPDR:
		return id & 0xffff
	case zzBAR:
		return id & 0xff
	}
	return id
}

type zzStepReq struct {
	creates []uint32 // ids named by Create IEs of the shard kind in this step
	seid    uint64   // session the request addresses (0 = none / new)
}

// ---- the per-step oracle over the data-plane call log ----

func (w *zzWorld) checkCalls(from int, allowed func(seid uint64) bool, rq zzStepReq, tag string) {
	for _, c := range w.dp.calls[from:] {
		// (a) every call is tagged with a session that is (still) live and addressed by this step
		zzAssert("C01.call-for-addressed-live-session."+tag, allowed(c.seid))
		zzAssert("C01.call-while-session-in-table."+tag, c.slotLive)
		switch c.op {
		case zzOpCreate:
			// creates only for ids named by a Create IE of this request
			named := false
			for _, id := range rq.creates {
				if c.id == zzIDMask(int(c.kind), id) {
					named = true
				}
			}
			zzAssert("C01.create-was-requested."+tag, named)
		default:
			// (b) update/remove/query only for rules the session has created and not yet removed
			zzAssert("C01.op-on-existing-rule."+tag, c.known)
		}
	}
}

// (c) every rule in the data plane belongs to a live session
func (w *zzWorld) checkRules(tag string) {
	for i := range w.dp.rules {
		r := &w.dp.rules[i]
		if r.state == zzAbsent {
			continue
		}
		ok := false
		for k := 0; k < zzMaxSess; k++ {
			if w.g.live[k] {
				if r.seid == uint64(k+1) {
					ok = true
				}
			}
		}
		zzAssert("C01.rule-belongs-to-live-session."+tag, ok)
	}
}

func (w *zzWorld) stepAssoc() {
	n := nondetChoice("assoc-node", 2)
	from := len(w.dp.calls)
	seq := w.nextSeq()
	if n == 0 {
		// the peer may come back from another source address (restart on another port): same node id,
		// so by the property its old sessions and their rules go all the same
		w.g.alt = nondetBool("assoc-from-other-address")
	}
	zzDeliver(w.s, zzAssocReq(seq, zzNodeID(n)), w.addr(n), seq)
	w.newResponses()
	// sessions of node n end
	ended := [zzMaxSess]bool{}
	for k := 0; k < zzMaxSess; k++ {
		if w.g.live[k] && w.g.node[k] == n {
			ended[k] = true
		}
	}
	w.checkCalls(from, func(seid uint64) bool {
		for k := 0; k < zzMaxSess; k++ {
			if ended[k] && seid == uint64(k+1) {
				return true
			}
		}
		return false
	}, zzStepReq{}, "assoc")
	for k := 0; k < zzMaxSess; k++ {
		if ended[k] {
			w.g.live[k] = false
			zzAssert("C01.reassociation-withdraws-all-rules", w.dp.rulesOf(uint64(k+1)) == 0)
			zzCover("C01.assoc.ended-session")
		}
	}
	w.g.assoc[n] = true
	w.checkRules("assoc")
}

func (w *zzWorld) stepEstablish() {
	n := nondetChoice("est-node", 2)
	cp := nondetU64("cpseid")
	nr := nondetChoice("est-rules", 3)
	ies := []*ie.IE{ie.NewNodeID(zzNodeID(n), "", ""), ie.NewFSEID(cp, []byte{127, 0, 0, byte(n + 1)}, nil)}
	var rq zzStepReq
	for i := 0; i < nr; i++ {
		id := zzRuleID("est-id")
		rq.creates = append(rq.creates, id)
		k := zzShardKind(w.kind)
		if w.kind == zzMixed && k == zzPDR {
			k = zzMixed + 1
		}
		ies = append(ies, zzCreateIE(k, id))
	}
	from := len(w.dp.calls)
	seq := w.nextSeq()
	zzDeliver(w.s, zzEstReq(seq, ies...), w.addr(n), seq)
	rsps := w.newResponses()
	if !w.g.assoc[n] {
		// unknown node: no answer, no trace
		zzAssert("C01.est-unknown-node.no-response", len(rsps) == 0)
		zzAssert("C01.est-unknown-node.no-dp-call", len(w.dp.calls) == from)
		return
	}
	zzAssert("C01.est.one-response", len(rsps) == 1)
	if len(rsps) != 1 {
		return
	}
	h := zzParseHdr(rsps[0])
	zzAssert("C01.est.rsp-type", h.ok && h.typ == 51)
	fs, ok := zzFindIE(rsps[0], h, 57)
	zzAssert("C01.est.up-fseid", ok && len(fs) >= 9)
	if !ok || len(fs) < 9 {
		return
	}
	var seid uint64
	for i := 0; i < 8; i++ {
		seid = seid<<8 | uint64(fs[1+i])
	}
	zzAssert("C01.est.seid-in-range", seid >= 1 && seid <= zzMaxSess)
	if seid < 1 || seid > zzMaxSess {
		return
	}
	k := int(seid - 1)
	zzAssert("C01.est.seid-fresh", !w.g.live[k])
	w.g.live[k], w.g.node[k], w.g.cp[k] = true, n, cp
	w.checkCalls(from, func(s uint64) bool { return s == seid }, rq, "est")
	w.checkRules("est")
	zzCover("C01.est.done")
}

func (w *zzWorld) pickSeid(name string) uint64 {
	return uint64(1 + nondetChoice(name, 2))
}

func (w *zzWorld) stepModify() {
	x := w.pickSeid("mod-seid")
	act := nondetChoice("mod-action", 4)
	id := zzRuleID("mod-id")
	var rq zzStepReq
	rq.seid = x
	var one *ie.IE
	k := zzShardKind(w.kind)
	switch act {
	case 0:
		if w.kind == zzMixed && k == zzPDR {
			one = zzCreateIE(zzMixed+1, id)
		} else {
			one = zzCreateIE(k, id)
		}
		rq.creates = append(rq.creates, id)
	case 1:
		one = zzUpdateIE(k, id)
	case 2:
		one = zzRemoveIE(k, id)
	case 3:
		if k != zzURR {
			zzAssume(false)
		}
		one = ie.NewQueryURR(ie.NewURRID(id))
	}
	from := len(w.dp.calls)
	seq := w.nextSeq()
	zzDeliver(w.s, zzModReq(x, seq, one), zzAddrA, seq)
	w.newResponses()
	live := w.g.live[x-1]
	if !live {
		zzAssert("C01.mod-unknown-session.no-dp-call", len(w.dp.calls) == from)
		return
	}
	w.checkCalls(from, func(s uint64) bool { return s == x }, rq, "mod")
	w.checkRules("mod")
	zzCover("C01.mod.done")
}

func (w *zzWorld) stepDelete() {
	x := w.pickSeid("del-seid")
	from := len(w.dp.calls)
	seq := w.nextSeq()
	zzDeliver(w.s, zzDelReq(x, seq), zzAddrA, seq)
	w.newResponses()
	if !w.g.live[x-1] {
		zzAssert("C01.del-unknown-session.no-dp-call", len(w.dp.calls) == from)
		return
	}
	w.checkCalls(from, func(s uint64) bool { return s == x }, zzStepReq{}, "del")
	w.g.live[x-1] = false
	zzAssert("C01.deletion-withdraws-all-rules", w.dp.rulesOf(x) == 0)
	w.checkRules("del")
	zzCover("C01.del.done")
}

// stepReportRsp: the peer answers a report for session x with SEID 0 (or with the real SEID).
func (w *zzWorld) stepReportRsp() {
	x := w.pickSeid("rr-seid")
	zero := nondetChoice("rr-seid0", 2) == 1
	if !w.g.live[x-1] {
		zzAssume(false)
	}
	cp := w.g.cp[x-1]
	n := w.g.node[x-1]
	req := message.NewSessionReportRequest(0, 0, cp, 0, 0, ie.NewReportType(0, 0, 1, 0))
	hdr := x
	if zero {
		hdr = 0
	}
	rsp := message.NewSessionReportResponse(0, 0, hdr, 0, 0, ie.NewCause(ie.CauseRequestAccepted))
	from := len(w.dp.calls)
	w.s.handleSessionReportResponse(rsp, w.addr(n), req)
	w.newResponses()
	if !zero {
		zzAssert("C01.reportrsp-nonzero.no-dp-call", len(w.dp.calls) == from)
		return
	}
	// exactly one session with this (CP SEID, peer) ends; which one is C05's business
	ended := -1
	cnt := 0
	for k := 0; k < zzMaxSess; k++ {
		if !w.g.live[k] {
			continue
		}
		if _, err := w.s.lnode.Sess(uint64(k + 1)); err != nil {
			cnt++
			ended = k
		}
	}
	zzAssert("C01.reportrsp-seid0.one-session-ends", cnt == 1)
	if cnt != 1 {
		return
	}
	zzAssert("C01.reportrsp-seid0.matches", w.g.cp[ended] == cp && w.g.node[ended] == n)
	e := uint64(ended + 1)
	w.checkCalls(from, func(s uint64) bool { return s == e }, zzStepReq{}, "reportrsp")
	w.g.live[ended] = false
	zzAssert("C01.reportrsp-seid0-withdraws-all-rules", w.dp.rulesOf(e) == 0)
	w.checkRules("reportrsp")
	zzCover("C01.reportrsp.done")
}

func zzC01History(kind int, depth int, faults bool) {
	w := zzNewWorld(kind, faults)
	// prefix: node A associated, one session with 0..2 rules (so that depth is spent on the interesting part)
	w.g.assoc[0] = true
	seq := w.nextSeq()
	zzDeliver(w.s, zzAssocReq(seq, zzNodeA), zzAddrA, seq)
	w.newResponses()
	for step := 0; step < depth; step++ {
		switch nondetChoice("step", 5) {
		case 0:
			w.stepAssoc()
		case 1:
			w.stepEstablish()
		case 2:
			w.stepModify()
		case 3:
			w.stepDelete()
		case 4:
			w.stepReportRsp()
		}
	}
	zzCover("C01.hist.done")
}

func zzD01() int { return 3 + zzTier() }

func ZZ_C01_FAR() { zzC01History(zzFAR, zzD01(), true) }
func ZZ_C01_QER() { zzC01History(zzQER, zzD01(), true) }
func ZZ_C01_BAR() { zzC01History(zzBAR, zzD01(), true) }
func ZZ_C01_URR() { zzC01History(zzURR, zzD01(), true) }
func ZZ_C01_PDR() { zzC01History(zzPDR, zzD01(), true) }

// PDRs referencing URRs: one step shorter (the shard doubles the branching per rule IE)
func ZZ_C01_PDRURR() { zzC01History(zzMixed, zzD01()-1+zzTier()*0, true) }

// A Session Modification Request may carry the Node ID of the control-plane node - the rule is "a new
// SMF taking over" but nothing stops the owner from naming itself. That is no change of ownership:
// the association is as before, and the node's next Association Setup still ends its sessions and
// withdraws every one of their rules (and a request of the session is still found).
func zzC01OwnNodeID() {
	w := zzNewWorld(zzFAR, false)
	w.g.assoc[0] = true
	seq := w.nextSeq()
	zzDeliver(w.s, zzAssocReq(seq, zzNodeA), zzAddrA, seq)
	seq = w.nextSeq()
	far := uint32(1 + nondetChoice("far", 2))
	zzDeliver(w.s, zzEstReq(seq, ie.NewNodeID(zzNodeA, "", ""), ie.NewFSEID(nondetU64("cpseid"), []byte{127, 0, 0, 1}, nil),
		ie.NewCreateFAR(ie.NewFARID(far), ie.NewApplyAction(2))), zzAddrA, seq)
	zzAssert("C01.own-nodeid.established", w.dp.rulesOf(1) == 1)
	for i := 0; i < 1+nondetChoice("repeats", 2); i++ {
		seq = w.nextSeq()
		zzDeliver(w.s, zzModReq(1, seq, ie.NewNodeID(zzNodeA, "", ""), ie.NewCreateFAR(ie.NewFARID(far+2), ie.NewApplyAction(2))), zzAddrA, seq)
	}
	zzAssert("C01.own-nodeid.association-kept", len(w.s.rnodes) == 1)
	_, err := w.s.lnode.Sess(1)
	zzAssert("C01.own-nodeid.session-kept", err == nil && w.dp.rulesOf(1) == 2)
	seq = w.nextSeq()
	zzDeliver(w.s, zzAssocReq(seq, zzNodeA), zzAddrA, seq)
	_, err = w.s.lnode.Sess(1)
	zzAssert("C01.own-nodeid.reassociation-ends-session", err != nil)
	zzAssert("C01.own-nodeid.reassociation-withdraws-all-rules", w.dp.rulesOf(1) == 0)
	zzAssert("C01.own-nodeid.one-association", len(w.s.rnodes) == 1)
	zzCover("C01.own-nodeid.done")
}

func ZZ_C01_OwnNodeID() { zzC01OwnNodeID() }

// A URR id that is removed and provisioned again. The data plane may answer a removal or a query
// with a usage report or with none (the repository's no-op driver and gtp5g on an empty answer give
// none), so the control side's record of the first incarnation can still be around when the id comes
// back. However the session then ends - deletion, re-association of its node, a report response with
// SEID 0 - the rule of the second incarnation is withdrawn like every other.
func zzC01URRRecreated() {
	w := zzMkSeq() // one session of node A: URR 1 (referenced by PDR 1), relaxed data plane
	w.dp.repCap = 1
	for i := 0; i < 3; i++ {
		w.seq++
		switch nondetChoice("op", 3) {
		case 0:
			zzDeliver(w.s, zzModReq(1, w.seq, ie.NewQueryURR(ie.NewURRID(1))), zzAddrA, w.seq)
		case 1:
			zzDeliver(w.s, zzModReq(1, w.seq, ie.NewRemoveURR(ie.NewURRID(1))), zzAddrA, w.seq)
			w.urr[0] = false
		case 2:
			zzAssume(!w.urr[0])
			zzDeliver(w.s, zzModReq(1, w.seq, ie.NewCreateURR(ie.NewURRID(1), ie.NewMeasurementMethod(0, 1, 0), ie.NewReportingTriggers(0x02, 0x00))), zzAddrA, w.seq)
			w.urr[0] = true
			zzCover("C01.urr-recreated.recreated")
		}
	}
	want := 1 // PDR 1
	if w.urr[0] {
		want = 2
	}
	zzAssert("C01.urr-recreated.rules-before-the-end", w.dp.rulesOf(1) == want)
	w.seq++
	switch nondetChoice("ends-by", 3) {
	case 0:
		zzDeliver(w.s, zzDelReq(1, w.seq), zzAddrA, w.seq)
	case 1:
		zzDeliver(w.s, zzAssocReq(w.seq, zzNodeA), zzAddrA, w.seq)
	case 2:
		req := message.NewSessionReportRequest(0, 0, w.sess.RemoteID, 0, 0, ie.NewReportType(0, 0, 1, 0))
		rsp := message.NewSessionReportResponse(0, 0, 0, 0, 0, ie.NewCause(ie.CauseSessionContextNotFound))
		w.s.handleSessionReportResponse(rsp, zzAddrA, req)
	}
	_, err := w.s.lnode.Sess(1)
	zzAssert("C01.urr-recreated.session-ended", err != nil)
	zzAssert("C01.urr-recreated.all-rules-withdrawn", w.dp.rulesOf(1) == 0)
	zzCover("C01.urr-recreated.done")
}

func ZZ_C01_URRRecreated() { zzC01URRRecreated() }

// Two control-plane nodes, both associated, each establishing a session - their control-plane SEIDs
// are the solver's and may coincide, a CP SEID being unique per node only - then one of them answers
// a report with SEID 0: the session that ends, and whose rules are withdrawn, is the one of that node
// with that CP SEID, and nobody else's rule is touched. (The same three steps are part of the 4-step
// histories of the thorough tier; this entry puts them into the quick tier.)
func zzC01TwoNodesSeid0() {
	w := zzNewWorld(zzFAR, false)
	for n := 0; n < 2; n++ {
		w.g.assoc[n] = true
		seq := w.nextSeq()
		zzDeliver(w.s, zzAssocReq(seq, zzNodeID(n)), w.addr(n), seq)
	}
	w.newResponses()
	w.stepEstablish()
	w.stepEstablish()
	w.stepReportRsp()
	zzCover("C01.two-nodes-seid0.done")
}

func ZZ_C01_TwoNodesSeid0() { zzC01TwoNodesSeid0() }
