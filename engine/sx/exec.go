package sx

import (
	"fmt"
	"go/constant"
	"go/token"
	"go/types"

	"golang.org/x/tools/go/ssa"

	"gosymx/term"
)

type coStatus int

const (
	coReady coStatus = iota
	coBlocked
	coYield
	coIdleWait // blocked until nothing else can run (e.g. socket read)
	coDone
)

type panicState struct {
	val       value
	recovered bool
	where     string
}

type coroutine struct {
	id        int
	stack     []*frame
	status    coStatus
	panicking *panicState
	pend      *pendingSend
	idleWoken bool
	name      string
}

type deferred struct {
	fn    value
	args  []value
	instr *ssa.Defer
}

type frame struct {
	fn        *ssa.Function
	info      *fnInfo
	block     *ssa.BasicBlock
	prev      *ssa.BasicBlock
	pc        int
	regs      []value
	defers    []*deferred
	retReg    int
	owner     *frame // deferred call: frame whose defer list this came from
	unwinding bool
	recovered bool
	nested    bool // frame started by callNested: stop the nested loop when it returns
	result    value
	loopCount map[*ssa.BasicBlock]int
}

type stepResult int

const (
	stNext stepResult = iota
	stJump
	stCalled
	stBlocked
	stReturned
)

func (co *coroutine) top() *frame {
	if len(co.stack) == 0 {
		return nil
	}
	return co.stack[len(co.stack)-1]
}

// ---- operands ----

func (m *Machine) get(fr *frame, v ssa.Value) value {
	switch v := v.(type) {
	case nil:
		return nil
	case *ssa.Const:
		return m.constVal(v)
	case *ssa.Global:
		return m.globalAddr(v)
	case *ssa.Function:
		return v
	case *ssa.Builtin:
		return v
	}
	i, ok := fr.info.regIdx[v]
	if !ok {
		panic(fmt.Sprintf("no register for %s in %s", v.Name(), fr.fn))
	}
	return fr.regs[i]
}

func (m *Machine) set(fr *frame, v ssa.Value, x value) {
	fr.regs[fr.info.regIdx[v]] = x
}

func (m *Machine) constVal(c *ssa.Const) value {
	if v, ok := m.wc.consts[c]; ok {
		return v
	}
	v, cache := constValue(c)
	if cache {
		m.wc.consts[c] = v
	}
	return v
}

func constValue(c *ssa.Const) (value, bool) {
	if c.Value == nil {
		z := zero(c.Type())
		switch z.(type) {
		case structure, array:
			return z, false
		}
		return z, true
	}
	t := c.Type().Underlying()
	if b, ok := t.(*types.Basic); ok {
		switch {
		case b.Info()&types.IsBoolean != 0:
			return constant.BoolVal(c.Value), true
		case b.Info()&types.IsInteger != 0:
			w, _, _ := intInfo(b)
			if u, ok := constant.Uint64Val(constant.ToInt(c.Value)); ok {
				return u & mask(w), true
			}
			i, _ := constant.Int64Val(constant.ToInt(c.Value))
			return uint64(i) & mask(w), true
		case b.Info()&types.IsFloat != 0:
			f, _ := constant.Float64Val(c.Value)
			if b.Kind() == types.Float32 {
				return float64(float32(f)), true
			}
			return f, true
		case b.Info()&types.IsString != 0:
			if c.Value.Kind() == constant.String {
				return constant.StringVal(c.Value), true
			}
			// string(rune) constant
			i, _ := constant.Int64Val(c.Value)
			return string(rune(i)), true
		case b.Kind() == types.UnsafePointer:
			return uptr{}, true
		}
	}
	if _, ok := t.(*types.TypeParam); ok {
		panic("const of type parameter")
	}
	panic(fmt.Sprintf("constValue: unexpected %v : %v", c, c.Type()))
}

func (m *Machine) globalAddr(g *ssa.Global) *value {
	if g.Pkg != nil {
		m.ensureInit(g.Pkg)
	}
	if a, ok := m.globals[g]; ok {
		return a
	}
	cell := new(value)
	*cell = zero(deref(g.Type()))
	m.globals[g] = cell
	return cell
}

func (m *Machine) ensureInit(pkg *ssa.Package) {
	if pkg == m.lastPkg {
		return
	}
	if m.pkgState[pkg] != 0 {
		m.lastPkg = pkg
		return
	}
	m.pkgState[pkg] = 1
	if !m.P.wantInit(pkg.Pkg.Path()) {
		m.pkgState[pkg] = 2
		m.emptyMapsOf(pkg)
		return
	}
	init := pkg.Func("init")
	if init != nil && init.Blocks != nil {
		m.initDepth++
		m.callNested(init, nil)
		m.initDepth--
	}
	m.pkgState[pkg] = 2
}

// emptyMapsOf: the initialiser of pkg is not executed (deny list: logging, validation and codec
// libraries whose start-up work is irrelevant and expensive). A package-level map that the real
// initialiser creates is then at least not nil - it is empty - so that code which registers
// something in it (govalidator.TagMap["cidr"] = ...) behaves as it does in the real program instead
// of faulting on a nil map. Maps the package leaves nil stay nil.
func (m *Machine) emptyMapsOf(pkg *ssa.Package) {
	init := pkg.Func("init")
	if init == nil {
		return
	}
	for _, b := range init.Blocks {
		for _, ins := range b.Instrs {
			st, ok := ins.(*ssa.Store)
			if !ok {
				continue
			}
			g, ok := st.Addr.(*ssa.Global)
			if !ok || g.Pkg != pkg {
				continue
			}
			mk, ok := st.Val.(*ssa.MakeMap)
			if !ok {
				continue
			}
			mt, ok := mk.Type().Underlying().(*types.Map)
			if !ok {
				continue
			}
			if _, done := m.globals[g]; done {
				continue
			}
			cell := new(value)
			*cell = newMap(mt.Key(), mt.Elem())
			m.globals[g] = cell
		}
	}
}

// ---- frames ----

func (m *Machine) pushFrame(co *coroutine, fn *ssa.Function, args []value, env []value, retReg int) *frame {
	if fn.Pkg != nil {
		m.ensureInit(fn.Pkg)
	}
	info := m.info(fn)
	if len(fn.Blocks) == 0 {
		m.unsupported("call of function without body: %s", info.name)
	}
	if len(co.stack) > 400 {
		m.unsupported("call depth exceeded at %s", info.name)
	}
	if m.fcount != nil {
		m.fcount[info]++
	}
	fr := &frame{fn: fn, info: info, block: fn.Blocks[0], regs: make([]value, info.nregs), retReg: retReg}
	i := 0
	for range fn.Params {
		if i < len(args) {
			fr.regs[i] = args[i]
		}
		i++
	}
	for j := range fn.FreeVars {
		fr.regs[i] = env[j]
		i++
	}
	co.stack = append(co.stack, fr)
	return fr
}

// callNested runs fn to completion on the current coroutine (used by
// intrinsics and package initialisation). Blocking inside is unsupported.
func (m *Machine) callNested(fn *ssa.Function, args []value) value {
	co := m.cur
	if co == nil {
		co = m.newCo("init")
		m.cur = co
	}
	return m.callValueNested(co, fn, args)
}

func (m *Machine) callValueNested(co *coroutine, fnv value, args []value) value {
	var res value
	switch f := fnv.(type) {
	case *ssa.Function:
		info := m.info(f)
		if info.intr != nil {
			r, handled := info.intr(m, co.top(), f, args)
			if handled {
				if _, b := r.(blockedT); b {
					m.unsupported("blocking intrinsic %s in nested call", info.name)
				}
				return r
			}
		}
		target := f
		if info.model != nil {
			target = info.model
		}
		fr := m.pushFrame(co, target, args, nil, -1)
		fr.nested = true
		res = m.runNested(co, fr)
	case *closure:
		fr := m.pushFrame(co, f.Fn, args, f.Env, -1)
		fr.nested = true
		res = m.runNested(co, fr)
	case *ssa.Builtin:
		res = m.callBuiltin(co.top(), f, args, nil)
	default:
		panic(fmt.Sprintf("callValueNested: %T", fnv))
	}
	return res
}

func (m *Machine) runNested(co *coroutine, fr *frame) value {
	depth := len(co.stack) - 1 // index of fr
	m.inNested++
	defer func() { m.inNested-- }()
	for {
		if len(co.stack) <= depth {
			break
		}
		if len(co.stack) == depth+1 && co.stack[depth] != fr {
			break
		}
		r := m.stepGuarded(co)
		if r == stBlocked {
			m.unsupported("blocking operation inside nested call (%s)", fr.fn)
		}
		if co.status == coDone {
			panic(pathAbort{"unsupported", "coroutine ended inside nested call"})
		}
	}
	return fr.result
}

// stepGuarded executes one instruction converting interpreter-level target
// panics into interpreted panics.
func (m *Machine) stepGuarded(co *coroutine) (r stepResult) {
	defer func() {
		if p := recover(); p != nil {
			if tp, ok := p.(targetPanic); ok {
				m.raise(co, tp.v)
				r = stJump
				return
			}
			panic(p)
		}
	}()
	return m.step(co)
}

// ---- panics ----

func (m *Machine) rtPanic(msg string) {
	panic(targetPanic{iface{t: m.P.rtErrType, v: "runtime error: " + msg}})
}

func (m *Machine) raise(co *coroutine, v value) {
	co.panicking = &panicState{val: v, where: m.where()}
	m.unwind(co)
}

// unwind pops frames running their deferred calls until the panic is
// recovered or the coroutine's stack is empty.
func (m *Machine) unwind(co *coroutine) {
	for {
		fr := co.top()
		if fr == nil {
			ps := co.panicking
			co.status = coDone
			m.uncaughtPanic(co, ps)
			return
		}
		if fr.nested && len(fr.defers) == 0 {
			// propagating out of a nested call is not supported by the engine
			panic(pathAbort{"unsupported", "panic propagating through nested call: " + m.panicString(co.panicking.val)})
		}
		if n := len(fr.defers); n > 0 {
			d := fr.defers[n-1]
			fr.defers = fr.defers[:n-1]
			fr.unwinding = true
			if m.invokeDeferred(co, fr, d) {
				return // a frame was pushed; continue when it returns
			}
			if m.afterDeferred(co, fr) {
				return
			}
			continue
		}
		fr.unwinding = false
		co.stack = co.stack[:len(co.stack)-1]
	}
}

// invokeDeferred starts deferred call d of frame fr. Returns true if a new
// frame was pushed (the call completes later), false if it completed inline.
func (m *Machine) invokeDeferred(co *coroutine, fr *frame, d *deferred) bool {
	switch f := d.fn.(type) {
	case *ssa.Builtin:
		m.callBuiltin(fr, f, d.args, nil)
		return false
	case *ssa.Function:
		if f == nil {
			m.rtPanic("invalid memory address or nil pointer dereference")
		}
		info := m.info(f)
		if info.intr != nil {
			r, handled := info.intr(m, fr, f, d.args)
			if handled {
				if _, b := r.(blockedT); b {
					m.unsupported("blocking intrinsic %s in deferred call", info.name)
				}
				return false
			}
		}
		target := f
		if info.model != nil {
			target = info.model
		}
		nf := m.pushFrame(co, target, d.args, nil, -1)
		nf.owner = fr
		return true
	case *closure:
		nf := m.pushFrame(co, f.Fn, d.args, f.Env, -1)
		nf.owner = fr
		return true
	}
	panic(fmt.Sprintf("invokeDeferred: %T", d.fn))
}

// afterDeferred is called when a deferred call of an unwinding frame fr has
// completed. Returns true if unwinding stopped (recovered).
func (m *Machine) afterDeferred(co *coroutine, fr *frame) bool {
	if co.panicking != nil && co.panicking.recovered {
		co.panicking = nil
		fr.unwinding = false
		fr.recovered = true
		m.finishRecovered(co, fr)
		return true
	}
	return false
}

// finishRecovered runs the remaining defers of fr normally and then returns
// from fr (via its Recover block if any).
func (m *Machine) finishRecovered(co *coroutine, fr *frame) {
	for len(fr.defers) > 0 {
		n := len(fr.defers)
		d := fr.defers[n-1]
		fr.defers = fr.defers[:n-1]
		if m.invokeDeferred(co, fr, d) {
			return // resumes in onReturn -> finishRecovered
		}
	}
	fr.recovered = false
	if fr.fn.Recover != nil {
		fr.prev, fr.block, fr.pc = fr.block, fr.fn.Recover, 0
		return
	}
	// return zero results
	fr.result = zeroResults(fr.fn)
	m.doReturn(co, fr)
}

func zeroResults(fn *ssa.Function) value {
	res := fn.Signature.Results()
	switch res.Len() {
	case 0:
		return nil
	case 1:
		return zero(res.At(0).Type())
	}
	t := make(tuple, res.Len())
	for i := range t {
		t[i] = zero(res.At(i).Type())
	}
	return t
}

func (m *Machine) panicString(v value) string {
	if i, ok := v.(iface); ok {
		if s, ok := i.v.(string); ok {
			return s
		}
		return m.vstr(i.v)
	}
	return m.vstr(v)
}

func (m *Machine) uncaughtPanic(co *coroutine, ps *panicState) {
	v := ps.val
	msg := m.panicString(v)
	m.recordViolationWithModel("panic", "panic: "+msg, ps.where)
	panic(pathAbort{"done", "uncaught panic: " + msg})
}

func (m *Machine) recordViolationWithModel(kind, label, where string) {
	if m.replaying() {
		return
	}
	mod, ok := m.currentModel()
	if !ok {
		panic(pathAbort{"unsupported", label + " reached but no model for the path"})
	}
	if m.tag != "" {
		label += " [" + m.tag + "]"
	}
	m.res.Violations = append(m.res.Violations, Violation{Label: label, Kind: kind, Model: mod, Where: where})
}

// ---- return ----

func (m *Machine) doReturn(co *coroutine, fr *frame) {
	co.stack = co.stack[:len(co.stack)-1]
	caller := co.top()
	if fr.owner != nil {
		// deferred call finished
		ow := fr.owner
		if ow.unwinding {
			if !m.afterDeferred(co, ow) {
				m.unwind(co)
			}
			return
		}
		if ow.recovered {
			m.finishRecovered(co, ow)
			return
		}
		// normal RunDefers: the RunDefers instruction re-executes
		return
	}
	if fr.nested {
		return
	}
	if caller == nil {
		co.status = coDone
		return
	}
	if fr.retReg >= 0 {
		caller.regs[fr.retReg] = fr.result
	}
}

// ---- the step function ----

func (m *Machine) step(co *coroutine) stepResult {
	fr := co.top()
	m.steps++
	if m.steps > m.Lim.MaxSteps {
		panic(pathAbort{"limit", fmt.Sprintf("step limit %d exceeded at %s", m.Lim.MaxSteps, m.where())})
	}
	instr := fr.block.Instrs[fr.pc]
	if m.P.Trace {
		fmt.Printf("[co%d] %s: %v\n", co.id, fr.fn.Name(), instr)
	}
	switch instr := instr.(type) {
	case *ssa.DebugRef:

	case *ssa.UnOp:
		if instr.Op == token.ARROW {
			v, ok := m.chanRecv(co, m.get(fr, instr.X).(*chanObj), instr.X.Type())
			if !ok {
				return m.block(co)
			}
			if instr.CommaOk {
				m.set(fr, instr, v)
			} else {
				m.set(fr, instr, v.(tuple)[0])
			}
		} else {
			m.set(fr, instr, m.unop(instr, m.get(fr, instr.X)))
		}

	case *ssa.BinOp:
		m.set(fr, instr, m.binop(instr.Op, instr.X.Type(), m.get(fr, instr.X), m.get(fr, instr.Y)))

	case *ssa.Call:
		fnv, args := m.prepareCall(fr, &instr.Call)
		return m.doCall(co, fr, fnv, args, fr.info.regIdx[instr], &instr.Call)

	case *ssa.ChangeInterface:
		m.set(fr, instr, m.get(fr, instr.X))

	case *ssa.ChangeType:
		m.set(fr, instr, m.get(fr, instr.X))

	case *ssa.Convert:
		m.set(fr, instr, m.conv(instr.Type(), instr.X.Type(), m.get(fr, instr.X)))

	case *ssa.MultiConvert:
		m.set(fr, instr, m.conv(instr.Type(), instr.X.Type(), m.get(fr, instr.X)))

	case *ssa.SliceToArrayPointer:
		x := m.get(fr, instr.X).([]value)
		n := int(deref(instr.Type()).Underlying().(*types.Array).Len())
		if len(x) < n {
			m.rtPanic("cannot convert slice to array pointer: length too short")
		}
		if x == nil {
			m.set(fr, instr, (*value)(nil))
		} else {
			// array aliasing the slice's cells is not representable; copy semantics would be wrong
			m.unsupported("SliceToArrayPointer")
		}

	case *ssa.MakeInterface:
		m.set(fr, instr, iface{t: instr.X.Type(), v: m.get(fr, instr.X)})

	case *ssa.Extract:
		m.set(fr, instr, m.get(fr, instr.Tuple).(tuple)[instr.Index])

	case *ssa.Slice:
		m.set(fr, instr, m.slice(instr, m.get(fr, instr.X), m.get(fr, instr.Low), m.get(fr, instr.High), m.get(fr, instr.Max)))

	case *ssa.Return:
		switch len(instr.Results) {
		case 0:
			fr.result = nil
		case 1:
			fr.result = m.get(fr, instr.Results[0])
		default:
			res := make(tuple, len(instr.Results))
			for i, r := range instr.Results {
				res[i] = m.get(fr, r)
			}
			fr.result = res
		}
		m.doReturn(co, fr)
		return stReturned

	case *ssa.RunDefers:
		if n := len(fr.defers); n > 0 {
			d := fr.defers[n-1]
			fr.defers = fr.defers[:n-1]
			m.invokeDeferred(co, fr, d)
			return stCalled // pc not advanced: RunDefers re-executes
		}

	case *ssa.Panic:
		panic(targetPanic{m.get(fr, instr.X)})

	case *ssa.Send:
		if !m.chanSend(co, m.get(fr, instr.Chan).(*chanObj), m.get(fr, instr.X)) {
			return m.block(co)
		}

	case *ssa.Store:
		m.store(m.get(fr, instr.Addr), m.get(fr, instr.Val), instr.Val.Type())

	case *ssa.If:
		succ := 1
		if m.branch(m.get(fr, instr.Cond)) {
			succ = 0
		}
		m.jump(fr, fr.block.Succs[succ])
		return stJump

	case *ssa.Jump:
		m.jump(fr, fr.block.Succs[0])
		return stJump

	case *ssa.Defer:
		fnv, args := m.prepareCall(fr, &instr.Call)
		if instr.DeferStack != nil {
			m.unsupported("defer with explicit DeferStack (range-over-func)")
		}
		fr.defers = append(fr.defers, &deferred{fn: fnv, args: args, instr: instr})

	case *ssa.Go:
		fnv, args := m.prepareCall(fr, &instr.Call)
		nco := m.newCo(fmt.Sprintf("go@%s", fr.fn.Name()))
		m.startCall(nco, fnv, args)

	case *ssa.MakeChan:
		sz := m.concreteInt(m.get(fr, instr.Size), instr.Size.Type(), "chan size")
		m.set(fr, instr, &chanObj{cap: int(sz), elem: instr.Type().Underlying().(*types.Chan).Elem()})

	case *ssa.Alloc:
		cell := new(value)
		*cell = zero(deref(instr.Type()))
		m.set(fr, instr, cell)

	case *ssa.MakeSlice:
		ln := m.concreteInt(m.get(fr, instr.Len), instr.Len.Type(), "make len")
		cp := m.concreteInt(m.get(fr, instr.Cap), instr.Cap.Type(), "make cap")
		if ln < 0 || cp < ln || cp > 1<<24 {
			m.rtPanic("makeslice: len out of range")
		}
		elt := instr.Type().Underlying().(*types.Slice).Elem()
		s := make([]value, cp)
		z := zero(elt)
		switch z.(type) {
		case structure, array:
			for i := range s {
				s[i] = zero(elt)
			}
		default:
			for i := range s {
				s[i] = z
			}
		}
		m.set(fr, instr, s[:ln])

	case *ssa.MakeMap:
		mt := instr.Type().Underlying().(*types.Map)
		m.set(fr, instr, newMap(mt.Key(), mt.Elem()))

	case *ssa.Range:
		m.set(fr, instr, m.rangeIter(m.get(fr, instr.X), instr.X.Type()))

	case *ssa.Next:
		m.set(fr, instr, m.get(fr, instr.Iter).(iter).next(m))

	case *ssa.FieldAddr:
		p := m.get(fr, instr.X)
		pv, ok := p.(*value)
		if !ok {
			m.unsupported("FieldAddr through %T", p)
		}
		if pv == nil {
			m.rtPanic("invalid memory address or nil pointer dereference")
		}
		m.set(fr, instr, &(*pv).(structure)[instr.Field])

	case *ssa.Field:
		m.set(fr, instr, copyVal(m.get(fr, instr.X).(structure)[instr.Field]))

	case *ssa.IndexAddr:
		x := m.get(fr, instr.X)
		idx := m.get(fr, instr.Index)
		var cells []value
		switch x := x.(type) {
		case []value:
			cells = x
		case *value:
			if x == nil {
				m.rtPanic("invalid memory address or nil pointer dereference")
			}
			cells = []value((*x).(array))
		default:
			m.unsupported("IndexAddr on %T", x)
		}
		if it, ok := idx.(*term.Term); ok && len(cells) > 1 && len(cells) <= 4096 {
			if w, isInt := elemWidth(deref(instr.Type())); isInt && allScalar(cells) {
				_, signed, _ := intInfo(instr.Index.Type())
				if !m.branch(boolVal(m.inRange(it, signed, len(cells)))) {
					m.rtPanic(fmt.Sprintf("index out of range [symbolic] with length %d", len(cells)))
				}
				m.set(fr, instr, &symElem{cells: cells, idx: it, w: w})
				break
			}
		}
		i := m.indexIn(idx, instr.Index.Type(), len(cells))
		m.set(fr, instr, &cells[i])

	case *ssa.Index:
		x := m.get(fr, instr.X)
		idx := m.get(fr, instr.Index)
		switch x := x.(type) {
		case array:
			m.set(fr, instr, copyVal(m.indexLoad([]value(x), idx, instr.Index.Type())))
		case string, *sstr:
			m.set(fr, instr, m.strIndex(x, idx, instr.Index.Type()))
		default:
			m.unsupported("Index on %T", x)
		}

	case *ssa.Lookup:
		m.set(fr, instr, m.lookup(instr, m.get(fr, instr.X), m.get(fr, instr.Index)))

	case *ssa.MapUpdate:
		mo := m.get(fr, instr.Map).(*mapObj)
		if mo == nil {
			panic(targetPanic{iface{t: m.P.rtErrType, v: "assignment to entry in nil map"}})
		}
		m.mapInsert(mo, m.get(fr, instr.Key), copyVal(m.get(fr, instr.Value)))

	case *ssa.TypeAssert:
		m.set(fr, instr, m.typeAssert(instr, m.get(fr, instr.X).(iface)))

	case *ssa.MakeClosure:
		var bindings []value
		for _, b := range instr.Bindings {
			bindings = append(bindings, m.get(fr, b))
		}
		m.set(fr, instr, &closure{instr.Fn.(*ssa.Function), bindings})

	case *ssa.Phi:
		panic("phi reached in step")

	case *ssa.Select:
		r, ok := m.doSelect(co, fr, instr)
		if !ok {
			return m.block(co)
		}
		m.set(fr, instr, r)

	default:
		m.unsupported("instruction %T", instr)
	}
	fr.pc++
	return stNext
}

func (m *Machine) block(co *coroutine) stepResult {
	if co.status == coReady {
		co.status = coBlocked
	}
	return stBlocked
}

func (m *Machine) jump(fr *frame, to *ssa.BasicBlock) {
	from := fr.block
	fr.prev, fr.block = from, to
	// loop bound on back edges whose guard was symbolic is handled via step limit;
	// count visits for diagnostics
	n := 0
	for _, ins := range to.Instrs {
		if _, ok := ins.(*ssa.Phi); !ok {
			break
		}
		n++
	}
	if n > 0 {
		pi := -1
		for i, p := range to.Preds {
			if p == from {
				pi = i
				break
			}
		}
		tmp := make([]value, n)
		for i := 0; i < n; i++ {
			tmp[i] = m.get(fr, to.Instrs[i].(*ssa.Phi).Edges[pi])
		}
		for i := 0; i < n; i++ {
			m.set(fr, to.Instrs[i].(*ssa.Phi), tmp[i])
		}
	}
	fr.pc = n
}

// ---- calls ----

func (m *Machine) prepareCall(fr *frame, call *ssa.CallCommon) (value, []value) {
	v := m.get(fr, call.Value)
	var fn value
	var args []value
	if call.Method == nil {
		fn = v
	} else {
		recv := v.(iface)
		if recv.t == nil {
			m.rtPanic("invalid memory address or nil pointer dereference")
		}
		f := m.P.Prog.LookupMethod(recv.t, call.Method.Pkg(), call.Method.Name())
		if f == nil {
			m.unsupported("method %s not found for dynamic type %v", call.Method.Name(), recv.t)
		}
		fn = f
		args = append(args, recv.v)
	}
	for _, a := range call.Args {
		args = append(args, copyVal(m.get(fr, a)))
	}
	return fn, args
}

type blockedT struct{}

func (m *Machine) doCall(co *coroutine, fr *frame, fnv value, args []value, retReg int, call *ssa.CallCommon) stepResult {
	switch f := fnv.(type) {
	case *ssa.Builtin:
		fr.regs[retReg] = m.callBuiltin(fr, f, args, call)
		fr.pc++
		return stNext
	case *ssa.Function:
		if f == nil {
			m.rtPanic("invalid memory address or nil pointer dereference")
		}
		info := m.info(f)
		if info.isPkgInit {
			// package initialisers are run lazily by ensureInit, never by other initialisers
			fr.pc++
			return stNext
		}
		if info.intr != nil {
			r, handled := info.intr(m, fr, f, args)
			if handled {
				if _, b := r.(blockedT); b {
					return m.block(co)
				}
				fr.regs[retReg] = r
				fr.pc++
				return stNext
			}
		}
		target := f
		if info.model != nil {
			target = info.model
		}
		fr.pc++
		m.pushFrame(co, target, args, nil, retReg)
		return stCalled
	case *closure:
		fr.pc++
		m.pushFrame(co, f.Fn, args, f.Env, retReg)
		return stCalled
	}
	panic(fmt.Sprintf("doCall: cannot call %T", fnv))
}

// startCall starts fnv as the base frame of a new coroutine.
func (m *Machine) startCall(co *coroutine, fnv value, args []value) {
	switch f := fnv.(type) {
	case *ssa.Function:
		info := m.info(f)
		if info.intr != nil {
			saved := m.cur
			m.cur = co
			_, handled := info.intr(m, nil, f, args)
			m.cur = saved
			if handled {
				co.status = coDone
				return
			}
		}
		m.pushFrame(co, f, args, nil, -1)
	case *closure:
		m.pushFrame(co, f.Fn, args, f.Env, -1)
	default:
		m.unsupported("go statement with %T", fnv)
	}
}

func (m *Machine) newCo(name string) *coroutine {
	co := &coroutine{id: m.nextCo, name: name}
	m.nextCo++
	m.cos = append(m.cos, co)
	return co
}

// ---- scheduler ----

// runSlice steps co until it blocks, yields, or finishes. Reports progress.
func (m *Machine) runSlice(co *coroutine) (progress bool) {
	m.cur = co
	if co.status == coBlocked || co.status == coIdleWait {
		co.status = coReady
	}
	for co.status == coReady {
		r := m.stepGuarded(co)
		if r == stBlocked {
			return progress
		}
		progress = true
		if len(co.stack) == 0 {
			co.status = coDone
		}
	}
	return progress
}

// Run executes fn as the main coroutine until it returns.
func (m *Machine) Run(fn *ssa.Function, args []value) {
	main := m.newCo("main")
	m.cur = main
	m.pushFrame(main, fn, args, nil, -1)
	cur := 0
	for main.status != coDone {
		// find a coroutine that can progress, round robin starting at cur,
		// yielded ones last, idle-waiters only when nothing else can run
		n := len(m.cos)
		progressed := false
		for k := 0; k < n && !progressed; k++ {
			co := m.cos[(cur+k)%n]
			if co.status == coDone || co.status == coYield || co.status == coIdleWait {
				continue
			}
			if m.runSlice(co) {
				progressed = true
				cur = (cur + k) % n
				if co.status == coDone || co.status == coYield {
					cur = (cur + 1) % len(m.cos)
				}
			}
			n = len(m.cos)
		}
		if progressed {
			continue
		}
		// resume a yielded coroutine
		for _, co := range m.cos {
			if co.status == coYield {
				co.status = coReady
				cur = co.id
				progressed = true
				break
			}
		}
		if progressed {
			continue
		}
		// wake one idle waiter
		for _, co := range m.cos {
			if co.status == coIdleWait {
				co.idleWoken = true
				co.status = coReady
				if m.runSlice(co) {
					progressed = true
					cur = co.id
					break
				}
			}
		}
		if progressed {
			continue
		}
		// wedge
		var blocked []string
		for _, co := range m.cos {
			if co.status != coDone {
				m.cur = co
				blocked = append(blocked, fmt.Sprintf("co%d(%s) at %s", co.id, co.name, m.where()))
			}
		}
		m.recordViolationWithModel("wedge", "wedge: all coroutines blocked", fmt.Sprint(blocked))
		panic(pathAbort{"done", "wedge: " + fmt.Sprint(blocked)})
	}
}

// ---- helpers on ints ----

// concreteInt returns the signed integer value of v (concretizing if symbolic).
func (m *Machine) concreteInt(v value, t types.Type, what string) int64 {
	w, signed, ok := intInfo(t)
	if !ok {
		panic(fmt.Sprintf("concreteInt: non-integer type %v", t))
	}
	var u uint64
	switch x := v.(type) {
	case uint64:
		u = x
	case *term.Term:
		u = m.concretize(x, what)
	default:
		panic(fmt.Sprintf("concreteInt: %T", v))
	}
	if signed {
		return sext(u, w)
	}
	if u > 1<<62 {
		return 1 << 62
	}
	return int64(u)
}

// indexIn validates idx against [0,n) and returns a concrete index, raising
// an interpreted panic when out of range (forking if that is only possible).
func (m *Machine) indexIn(idx value, t types.Type, n int) int {
	w, signed, _ := intInfo(t)
	switch x := idx.(type) {
	case uint64:
		var i int64
		if signed {
			i = sext(x, w)
		} else if x > 1<<62 {
			i = -1
		} else {
			i = int64(x)
		}
		if i < 0 || i >= int64(n) {
			m.rtPanic(fmt.Sprintf("index out of range [%d] with length %d", i, n))
		}
		return int(i)
	case *term.Term:
		in := m.inRange(x, signed, n)
		if !m.branch(in) {
			m.rtPanic(fmt.Sprintf("index out of range [symbolic] with length %d", n))
		}
		return int(m.concretize(x, "index"))
	}
	panic(fmt.Sprintf("indexIn: %T", idx))
}

// inRange builds 0 <= x < n.
func (m *Machine) inRange(x *term.Term, signed bool, n int) *term.Term {
	if n <= 0 {
		return m.F.False()
	}
	if x.W < 64 && uint64(n) > mask(x.W) {
		if signed {
			// only the non-negative half can be in range
			return m.F.Cmp(term.OpSle, m.F.Const(x.W, 0), x)
		}
		return m.F.True()
	}
	c := m.F.Cmp(term.OpUlt, x, m.F.Const(x.W, uint64(n)))
	_ = signed // unsigned compare also excludes negative values of signed ints
	return c
}

// indexLoad loads cells[idx]; a symbolic idx over scalar cells becomes an ite chain.
func (m *Machine) indexLoad(cells []value, idx value, t types.Type) value {
	if x, ok := idx.(*term.Term); ok && len(cells) <= 256 && len(cells) > 0 {
		if w, okw := scalarWidth(cells); okw {
			_, signed, _ := intInfo(t)
			in := m.inRange(x, signed, len(cells))
			if !m.branch(in) {
				m.rtPanic(fmt.Sprintf("index out of range [symbolic] with length %d", len(cells)))
			}
			var acc *term.Term = m.toTerm(cells[len(cells)-1], w)
			for i := len(cells) - 2; i >= 0; i-- {
				acc = m.F.Ite(m.F.Eq(x, m.F.Const(x.W, uint64(i))), m.toTerm(cells[i], w), acc)
			}
			if w == 0 {
				return boolVal(acc)
			}
			return intVal(acc)
		}
	}
	return cells[m.indexIn(idx, t, len(cells))]
}

func elemWidth(t types.Type) (int, bool) {
	if isBoolT(t) {
		return 0, true
	}
	w, _, ok := intInfo(t)
	return w, ok
}

func allScalar(cells []value) bool {
	for _, c := range cells {
		switch c.(type) {
		case uint64, bool, *term.Term:
		default:
			return false
		}
	}
	return true
}

// symLoad builds the ite chain for cells[idx]; equal concrete values are grouped and the
// most frequent one becomes the default arm.
func (m *Machine) symLoad(p *symElem) value {
	F := m.F
	count := map[uint64]int{}
	for _, c := range p.cells {
		switch c := c.(type) {
		case uint64:
			count[c]++
		case bool:
			if c {
				count[1]++
			} else {
				count[0]++
			}
		}
	}
	var defv uint64
	best := -1
	for v, n := range count {
		if n > best || (n == best && v < defv) {
			best, defv = n, v
		}
	}
	var acc *term.Term
	if p.w == 0 {
		acc = F.Bool(defv != 0)
	} else {
		acc = F.Const(p.w, defv)
	}
	if best < 0 {
		acc = m.toTerm(p.cells[len(p.cells)-1], p.w)
	}
	for i := len(p.cells) - 1; i >= 0; i-- {
		c := p.cells[i]
		var ct *term.Term
		switch c := c.(type) {
		case uint64:
			if best >= 0 && c == defv {
				continue
			}
			ct = F.Const(p.w, c)
		case bool:
			var u uint64
			if c {
				u = 1
			}
			if best >= 0 && u == defv {
				continue
			}
			ct = F.Bool(c)
		case *term.Term:
			ct = c
		}
		acc = F.Ite(F.Eq(p.idx, F.Const(p.idx.W, uint64(i))), ct, acc)
	}
	if p.w == 0 {
		return boolVal(acc)
	}
	return intVal(acc)
}

// scalarWidth reports whether all cells are integers (same width unknown: use
// 8 for bytes when any is a term) or booleans.
func scalarWidth(cells []value) (int, bool) {
	w := -1
	for _, c := range cells {
		switch c := c.(type) {
		case *term.Term:
			if w != -1 && w != c.W {
				return 0, false
			}
			w = c.W
		case uint64, bool:
		default:
			return 0, false
		}
	}
	if w == -1 {
		return 0, false // fully concrete: caller should concretize index instead
	}
	for _, c := range cells {
		switch c.(type) {
		case bool:
			if w != 0 {
				return 0, false
			}
		case uint64:
			if w == 0 {
				return 0, false
			}
		}
	}
	return w, true
}

func (m *Machine) toTerm(v value, w int) *term.Term {
	switch v := v.(type) {
	case *term.Term:
		return v
	case uint64:
		return m.F.Const(w, v)
	case bool:
		return m.F.Bool(v)
	}
	panic(fmt.Sprintf("toTerm: %T", v))
}

func intVal(t *term.Term) value {
	if t.IsConst() {
		return t.Val
	}
	return t
}

func boolVal(t *term.Term) value {
	if t.IsConst() {
		return t.Val != 0
	}
	return t
}
