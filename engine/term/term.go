// Package term implements hash-consed bit-vector / Boolean terms with a light
// simplifier, an SMT-LIB2 printer and a concrete evaluator.
package term

import (
	"fmt"
	"math/bits"
	"sort"
	"strings"
)

type Op uint8

const (
	OpConst Op = iota // bit-vector constant (W>0) or Boolean constant (W==0, Val 0/1)
	OpVar
	// bit-vector -> bit-vector
	OpAdd
	OpSub
	OpMul
	OpUDiv
	OpURem
	OpSDiv
	OpSRem
	OpAnd
	OpOr
	OpXor
	OpNot
	OpNeg
	OpShl
	OpLShr
	OpAShr
	OpExtract // Lo, Hi
	OpConcat
	OpZext // to W
	OpSext // to W
	OpIte  // args: cond(Bool), a, b   (W of a)
	// -> Bool
	OpEq
	OpUlt
	OpUle
	OpSlt
	OpSle
	OpBAnd
	OpBOr
	OpBNot
)

var opNames = map[Op]string{
	OpAdd: "bvadd", OpSub: "bvsub", OpMul: "bvmul", OpUDiv: "bvudiv", OpURem: "bvurem",
	OpSDiv: "bvsdiv", OpSRem: "bvsrem", OpAnd: "bvand", OpOr: "bvor", OpXor: "bvxor",
	OpNot: "bvnot", OpNeg: "bvneg", OpShl: "bvshl", OpLShr: "bvlshr", OpAShr: "bvashr",
	OpConcat: "concat", OpIte: "ite", OpEq: "=", OpUlt: "bvult", OpUle: "bvule",
	OpSlt: "bvslt", OpSle: "bvsle", OpBAnd: "and", OpBOr: "or", OpBNot: "not",
}

// Term is an immutable hash-consed node. W is the bit width; 0 means Bool.
type Term struct {
	Op     Op
	W      int
	Args   []*Term
	Val    uint64 // OpConst
	Name   string // OpVar
	Lo, Hi int    // OpExtract
	ID     int
}

func (t *Term) IsConst() bool { return t.Op == OpConst }
func (t *Term) IsBool() bool  { return t.W == 0 }

// Factory owns the hash-consing table. Not safe for concurrent use.
type Factory struct {
	tab   map[tkey]*Term
	next  int
	Vars  []*Term
	true_ *Term
	false *Term
}

func NewFactory() *Factory {
	f := &Factory{tab: make(map[tkey]*Term)}
	f.true_ = f.mk(&Term{Op: OpConst, W: 0, Val: 1})
	f.false = f.mk(&Term{Op: OpConst, W: 0, Val: 0})
	return f
}

func mask(w int) uint64 {
	if w >= 64 {
		return ^uint64(0)
	}
	return (uint64(1) << uint(w)) - 1
}

type tkey struct {
	op         Op
	w          int
	val        uint64
	lo, hi     int
	name       string
	a0, a1, a2 int
}

func (f *Factory) mk(t *Term) *Term {
	k := tkey{op: t.Op, w: t.W, val: t.Val, lo: t.Lo, hi: t.Hi, name: t.Name, a0: -1, a1: -1, a2: -1}
	switch len(t.Args) {
	case 3:
		k.a2 = t.Args[2].ID
		fallthrough
	case 2:
		k.a1 = t.Args[1].ID
		fallthrough
	case 1:
		k.a0 = t.Args[0].ID
	}
	if e, ok := f.tab[k]; ok {
		return e
	}
	t.ID = f.next
	f.next++
	f.tab[k] = t
	return t
}

func (f *Factory) True() *Term  { return f.true_ }
func (f *Factory) False() *Term { return f.false }
func (f *Factory) Bool(b bool) *Term {
	if b {
		return f.true_
	}
	return f.false
}

func (f *Factory) Const(w int, v uint64) *Term {
	if w <= 0 {
		panic("term: Const with width 0")
	}
	return f.mk(&Term{Op: OpConst, W: w, Val: v & mask(w)})
}

// Var creates a fresh variable; name must be unique per factory.
func (f *Factory) Var(name string, w int) *Term {
	before := f.next
	t := f.mk(&Term{Op: OpVar, W: w, Name: name})
	if t.ID == before {
		f.Vars = append(f.Vars, t)
	}
	return t
}

func sext64(v uint64, w int) int64 {
	if w >= 64 {
		return int64(v)
	}
	sh := uint(64 - w)
	return int64(v<<sh) >> sh
}

// ---- constructors with simplification ----

func (f *Factory) Bin(op Op, a, b *Term) *Term {
	if a.W != b.W {
		panic(fmt.Sprintf("term: width mismatch %d vs %d in %s", a.W, b.W, opNames[op]))
	}
	w := a.W
	if a.IsConst() && b.IsConst() {
		if v, ok := foldBin(op, a.Val, b.Val, w); ok {
			return f.Const(w, v)
		}
	}
	// canonical order for commutative ops: constant on the right
	switch op {
	case OpAdd, OpMul, OpAnd, OpOr, OpXor:
		if a.IsConst() && !b.IsConst() {
			a, b = b, a
		}
	}
	m := mask(w)
	switch op {
	case OpAdd:
		if b.IsConst() && b.Val == 0 {
			return a
		}
		// (x + c1) + c2
		if b.IsConst() && a.Op == OpAdd && a.Args[1].IsConst() {
			return f.Bin(OpAdd, a.Args[0], f.Const(w, a.Args[1].Val+b.Val))
		}
	case OpSub:
		if b.IsConst() && b.Val == 0 {
			return a
		}
		if a == b {
			return f.Const(w, 0)
		}
		if b.IsConst() {
			return f.Bin(OpAdd, a, f.Const(w, -b.Val))
		}
	case OpMul:
		if b.IsConst() && b.Val == 0 {
			return b
		}
		if b.IsConst() && b.Val == 1 {
			return a
		}
		if b.IsConst() && bits.OnesCount64(b.Val) == 1 {
			return f.Bin(OpShl, a, f.Const(w, uint64(bits.TrailingZeros64(b.Val))))
		}
	case OpAnd:
		if b.IsConst() && b.Val == 0 {
			return b
		}
		if b.IsConst() && b.Val == m {
			return a
		}
		if a == b {
			return a
		}
		if b.IsConst() {
			// and with low mask of zext -> may be identity
			if a.Op == OpZext && b.Val&mask(a.Args[0].W) == mask(a.Args[0].W) {
				return a
			}
			// (x & c1) & c2
			if a.Op == OpAnd && a.Args[1].IsConst() {
				return f.Bin(OpAnd, a.Args[0], f.Const(w, a.Args[1].Val&b.Val))
			}
			// mask that is contiguous low bits: zext(extract)
			if b.Val != 0 && (b.Val&(b.Val+1)) == 0 {
				n := bits.Len64(b.Val)
				if n < w {
					return f.Zext(f.Extract(a, n-1, 0), w)
				}
			}
		}
	case OpOr:
		if b.IsConst() && b.Val == 0 {
			return a
		}
		if b.IsConst() && b.Val == m {
			return b
		}
		if a == b {
			return a
		}
		// zext(x) | (zext(y) << k)  where x fits below k -> concat
		if r := f.orAsConcat(a, b); r != nil {
			return r
		}
		if r := f.orAsConcat(b, a); r != nil {
			return r
		}
	case OpXor:
		if b.IsConst() && b.Val == 0 {
			return a
		}
		if a == b {
			return f.Const(w, 0)
		}
	case OpShl:
		if b.IsConst() {
			if b.Val == 0 {
				return a
			}
			if b.Val >= uint64(w) {
				return f.Const(w, 0)
			}
			k := int(b.Val)
			// shl(x,k) = concat(extract(x, w-k-1, 0), 0_k)
			return f.Concat(f.Extract(a, w-k-1, 0), f.Const(k, 0))
		}
	case OpLShr:
		if b.IsConst() {
			if b.Val == 0 {
				return a
			}
			if b.Val >= uint64(w) {
				return f.Const(w, 0)
			}
			k := int(b.Val)
			return f.Zext(f.Extract(a, w-1, k), w)
		}
	case OpAShr:
		if b.IsConst() {
			if b.Val == 0 {
				return a
			}
			k := w - 1
			if b.Val < uint64(w) {
				k = int(b.Val)
			}
			return f.Sext(f.Extract(a, w-1, k), w)
		}
	case OpUDiv:
		if b.IsConst() && b.Val == 1 {
			return a
		}
		if b.IsConst() && bits.OnesCount64(b.Val) == 1 {
			return f.Bin(OpLShr, a, f.Const(w, uint64(bits.TrailingZeros64(b.Val))))
		}
	case OpURem:
		if b.IsConst() && bits.OnesCount64(b.Val) == 1 {
			return f.Bin(OpAnd, a, f.Const(w, b.Val-1))
		}
	}
	return f.mk(&Term{Op: op, W: w, Args: []*Term{a, b}})
}

// lowBitsKnownZero returns the number of low bits known zero; highZero the number of high bits known zero.
func highZero(t *Term) int {
	switch t.Op {
	case OpConst:
		return t.W - bits.Len64(t.Val)
	case OpZext:
		return t.W - t.Args[0].W + highZero(t.Args[0])
	case OpConcat:
		if t.Args[0].IsConst() && t.Args[0].Val == 0 {
			return t.Args[0].W + highZero(t.Args[1])
		}
		return highZero(t.Args[0])
	case OpAnd:
		a, b := highZero(t.Args[0]), highZero(t.Args[1])
		if a > b {
			return a
		}
		return b
	}
	return 0
}

func lowZero(t *Term) int {
	switch t.Op {
	case OpConst:
		if t.Val == 0 {
			return t.W
		}
		return bits.TrailingZeros64(t.Val)
	case OpConcat:
		n := lowZero(t.Args[1])
		if n == t.Args[1].W {
			return n + lowZero(t.Args[0])
		}
		return n
	}
	return 0
}

// orAsConcat: a | b where a's high bits above k are zero and b's low k bits are zero.
func (f *Factory) orAsConcat(lo, hi *Term) *Term {
	w := lo.W
	k := lowZero(hi)
	if k == 0 || k >= w {
		return nil
	}
	if highZero(lo) < w-k {
		return nil
	}
	return f.Concat(f.Extract(hi, w-1, k), f.Extract(lo, k-1, 0))
}

func foldBin(op Op, a, b uint64, w int) (uint64, bool) {
	m := mask(w)
	switch op {
	case OpAdd:
		return (a + b) & m, true
	case OpSub:
		return (a - b) & m, true
	case OpMul:
		return (a * b) & m, true
	case OpUDiv:
		if b == 0 {
			return m, true
		}
		return a / b, true
	case OpURem:
		if b == 0 {
			return a, true
		}
		return a % b, true
	case OpSDiv:
		if b == 0 {
			return 0, false
		}
		x, y := sext64(a, w), sext64(b, w)
		if y == -1 {
			return uint64(-x) & m, true
		}
		return uint64(x/y) & m, true
	case OpSRem:
		if b == 0 {
			return 0, false
		}
		x, y := sext64(a, w), sext64(b, w)
		if y == -1 {
			return 0, true
		}
		return uint64(x%y) & m, true
	case OpAnd:
		return a & b, true
	case OpOr:
		return a | b, true
	case OpXor:
		return a ^ b, true
	case OpShl:
		if b >= uint64(w) {
			return 0, true
		}
		return (a << b) & m, true
	case OpLShr:
		if b >= uint64(w) {
			return 0, true
		}
		return a >> b, true
	case OpAShr:
		if b >= uint64(w) {
			b = uint64(w - 1)
		}
		return uint64(sext64(a, w)>>b) & m, true
	}
	return 0, false
}

func (f *Factory) Not(a *Term) *Term {
	if a.IsConst() {
		return f.Const(a.W, ^a.Val)
	}
	if a.Op == OpNot {
		return a.Args[0]
	}
	return f.mk(&Term{Op: OpNot, W: a.W, Args: []*Term{a}})
}

func (f *Factory) Neg(a *Term) *Term {
	if a.IsConst() {
		return f.Const(a.W, -a.Val)
	}
	return f.mk(&Term{Op: OpNeg, W: a.W, Args: []*Term{a}})
}

func (f *Factory) Extract(a *Term, hi, lo int) *Term {
	if hi < lo || lo < 0 || hi >= a.W {
		panic(fmt.Sprintf("term: bad extract [%d:%d] of width %d", hi, lo, a.W))
	}
	if lo == 0 && hi == a.W-1 {
		return a
	}
	w := hi - lo + 1
	switch a.Op {
	case OpConst:
		return f.Const(w, a.Val>>uint(lo))
	case OpExtract:
		return f.Extract(a.Args[0], a.Lo+hi, a.Lo+lo)
	case OpConcat:
		lw := a.Args[1].W
		if hi < lw {
			return f.Extract(a.Args[1], hi, lo)
		}
		if lo >= lw {
			return f.Extract(a.Args[0], hi-lw, lo-lw)
		}
		return f.Concat(f.Extract(a.Args[0], hi-lw, 0), f.Extract(a.Args[1], lw-1, lo))
	case OpZext:
		iw := a.Args[0].W
		if hi < iw {
			return f.Extract(a.Args[0], hi, lo)
		}
		if lo >= iw {
			return f.Const(w, 0)
		}
		return f.Zext(f.Extract(a.Args[0], iw-1, lo), w)
	case OpSext:
		iw := a.Args[0].W
		if hi < iw {
			return f.Extract(a.Args[0], hi, lo)
		}
	case OpAnd, OpOr, OpXor:
		// push extract through bitwise ops when one side is constant
		if a.Args[1].IsConst() {
			return f.Bin(a.Op, f.Extract(a.Args[0], hi, lo), f.Extract(a.Args[1], hi, lo))
		}
	case OpIte:
		if a.Args[1].IsConst() && a.Args[2].IsConst() {
			return f.Ite(a.Args[0], f.Extract(a.Args[1], hi, lo), f.Extract(a.Args[2], hi, lo))
		}
	case OpAdd, OpSub, OpMul:
		if lo == 0 {
			// low bits of modular arithmetic depend only on low bits
			return f.Bin(a.Op, f.Extract(a.Args[0], hi, 0), f.Extract(a.Args[1], hi, 0))
		}
	}
	return f.mk(&Term{Op: OpExtract, W: w, Args: []*Term{a}, Lo: lo, Hi: hi})
}

func (f *Factory) Concat(hi, lo *Term) *Term {
	w := hi.W + lo.W
	if w > 64 {
		// wide concats are allowed (only as solver terms), constants not folded
		return f.mk(&Term{Op: OpConcat, W: w, Args: []*Term{hi, lo}})
	}
	if hi.IsConst() && lo.IsConst() {
		return f.Const(w, hi.Val<<uint(lo.W)|lo.Val)
	}
	if hi.IsConst() && hi.Val == 0 {
		return f.Zext(lo, w)
	}
	// adjacent extracts of same term
	if hi.Op == OpExtract && lo.Op == OpExtract && hi.Args[0] == lo.Args[0] && hi.Lo == lo.Hi+1 {
		return f.Extract(hi.Args[0], hi.Hi, lo.Lo)
	}
	// concat(a, concat(b,c)) where a,b adjacent extracts
	if hi.Op == OpExtract && lo.Op == OpConcat {
		l0 := lo.Args[0]
		if l0.Op == OpExtract && l0.Args[0] == hi.Args[0] && hi.Lo == l0.Hi+1 {
			return f.Concat(f.Extract(hi.Args[0], hi.Hi, l0.Lo), lo.Args[1])
		}
	}
	// concat(concat(a,b), c) where b,c adjacent extracts
	if hi.Op == OpConcat && lo.Op == OpExtract {
		h1 := hi.Args[1]
		if h1.Op == OpExtract && h1.Args[0] == lo.Args[0] && h1.Lo == lo.Hi+1 {
			return f.Concat(hi.Args[0], f.Extract(lo.Args[0], h1.Hi, lo.Lo))
		}
	}
	// concat(zext(x)... ) keep
	return f.mk(&Term{Op: OpConcat, W: w, Args: []*Term{hi, lo}})
}

func (f *Factory) Zext(a *Term, w int) *Term {
	if w == a.W {
		return a
	}
	if w < a.W {
		panic("term: zext to smaller width")
	}
	if a.IsConst() {
		return f.Const(w, a.Val)
	}
	if a.Op == OpZext {
		return f.Zext(a.Args[0], w)
	}
	return f.mk(&Term{Op: OpZext, W: w, Args: []*Term{a}})
}

func (f *Factory) Sext(a *Term, w int) *Term {
	if w == a.W {
		return a
	}
	if w < a.W {
		panic("term: sext to smaller width")
	}
	if a.IsConst() {
		return f.Const(w, uint64(sext64(a.Val, a.W)))
	}
	if a.Op == OpZext {
		return f.Zext(a.Args[0], w)
	}
	return f.mk(&Term{Op: OpSext, W: w, Args: []*Term{a}})
}

func (f *Factory) Ite(c, a, b *Term) *Term {
	if c.IsConst() {
		if c.Val != 0 {
			return a
		}
		return b
	}
	if a == b {
		return a
	}
	if a.W == 0 {
		// Boolean ite
		if a.IsConst() && b.IsConst() {
			if a.Val != 0 {
				return c
			}
			return f.BNot(c)
		}
		return f.BOr(f.BAnd(c, a), f.BAnd(f.BNot(c), b))
	}
	return f.mk(&Term{Op: OpIte, W: a.W, Args: []*Term{c, a, b}})
}

func (f *Factory) Eq(a, b *Term) *Term {
	if a.W != b.W {
		panic(fmt.Sprintf("term: Eq width mismatch %d vs %d", a.W, b.W))
	}
	if a == b {
		return f.true_
	}
	if a.IsConst() && b.IsConst() {
		return f.Bool(a.Val == b.Val)
	}
	if a.W == 0 {
		// Boolean equality
		if b.IsConst() {
			a, b = b, a
		}
		if a.IsConst() {
			if a.Val != 0 {
				return b
			}
			return f.BNot(b)
		}
		return f.mk(&Term{Op: OpEq, W: 0, Args: []*Term{a, b}})
	}
	if a.IsConst() {
		a, b = b, a
	}
	if b.IsConst() {
		switch a.Op {
		case OpZext:
			iw := a.Args[0].W
			if b.Val>>uint(iw) != 0 {
				return f.false
			}
			return f.Eq(a.Args[0], f.Const(iw, b.Val))
		case OpConcat:
			if a.W <= 64 {
				lw := a.Args[1].W
				return f.BAnd(f.Eq(a.Args[0], f.Const(a.Args[0].W, b.Val>>uint(lw))),
					f.Eq(a.Args[1], f.Const(lw, b.Val)))
			}
		case OpIte:
			if a.Args[1].IsConst() && a.Args[2].IsConst() {
				t1 := a.Args[1].Val == b.Val
				t2 := a.Args[2].Val == b.Val
				switch {
				case t1 && t2:
					return f.true_
				case t1:
					return a.Args[0]
				case t2:
					return f.BNot(a.Args[0])
				default:
					return f.false
				}
			}
		case OpAdd:
			if a.Args[1].IsConst() {
				return f.Eq(a.Args[0], f.Const(a.W, b.Val-a.Args[1].Val))
			}
		case OpXor:
			if a.Args[1].IsConst() {
				return f.Eq(a.Args[0], f.Const(a.W, b.Val^a.Args[1].Val))
			}
		}
	}
	if a.ID > b.ID && !b.IsConst() {
		a, b = b, a
	}
	return f.mk(&Term{Op: OpEq, W: 0, Args: []*Term{a, b}})
}

// urange returns a sound unsigned interval [lo, hi] for a bit-vector term of width <= 64.
func urange(t *Term) (uint64, uint64) {
	if t.IsConst() {
		return t.Val, t.Val
	}
	switch t.Op {
	case OpZext:
		return urange(t.Args[0])
	case OpConcat:
		if t.W <= 64 {
			lw := uint(t.Args[1].W)
			hlo, hhi := urange(t.Args[0])
			llo, lhi := urange(t.Args[1])
			return hlo<<lw | llo, hhi<<lw | lhi
		}
	}
	if hz := highZero(t); hz > 0 && hz < t.W {
		return 0, mask(t.W - hz)
	}
	return 0, mask(t.W)
}

func (f *Factory) Cmp(op Op, a, b *Term) *Term {
	if a.W != b.W {
		panic("term: Cmp width mismatch")
	}
	if a.IsConst() && b.IsConst() {
		switch op {
		case OpUlt:
			return f.Bool(a.Val < b.Val)
		case OpUle:
			return f.Bool(a.Val <= b.Val)
		case OpSlt:
			return f.Bool(sext64(a.Val, a.W) < sext64(b.Val, b.W))
		case OpSle:
			return f.Bool(sext64(a.Val, a.W) <= sext64(b.Val, b.W))
		}
	}
	if a == b {
		return f.Bool(op == OpUle || op == OpSle)
	}
	// unsigned interval reasoning (constants, zero-extensions, concat with a constant high part)
	if a.W > 0 && a.W <= 64 {
		alo, ahi := urange(a)
		blo, bhi := urange(b)
		switch op {
		case OpUlt:
			if ahi < blo {
				return f.true_
			}
			if alo >= bhi {
				return f.false
			}
		case OpUle:
			if ahi <= blo {
				return f.true_
			}
			if alo > bhi {
				return f.false
			}
		case OpSlt, OpSle:
			top := uint64(1) << uint(a.W-1)
			if ahi < top && bhi < top && !(highZero(a) > 0 && highZero(b) > 0) {
				if op == OpSlt {
					return f.Cmp(OpUlt, a, b)
				}
				return f.Cmp(OpUle, a, b)
			}
		}
	}
	switch op {
	case OpUlt:
		if b.IsConst() && b.Val == 0 {
			return f.false
		}
		if a.IsConst() && a.Val == mask(a.W) {
			return f.false
		}
		if b.IsConst() && highZero(a) > 0 && b.Val > mask(a.W-highZero(a)) {
			return f.true_
		}
	case OpUle:
		if a.IsConst() && a.Val == 0 {
			return f.true_
		}
		if b.IsConst() && b.Val == mask(b.W) {
			return f.true_
		}
		if b.IsConst() && highZero(a) > 0 && b.Val >= mask(a.W-highZero(a)) {
			return f.true_
		}
	case OpSlt:
		// x <s 0 where sign bit known zero
		if b.IsConst() && b.Val == 0 && highZero(a) > 0 {
			return f.false
		}
		if highZero(a) > 0 && highZero(b) > 0 {
			return f.Cmp(OpUlt, a, b)
		}
	case OpSle:
		if highZero(a) > 0 && highZero(b) > 0 {
			return f.Cmp(OpUle, a, b)
		}
	}
	return f.mk(&Term{Op: op, W: 0, Args: []*Term{a, b}})
}

func (f *Factory) BNot(a *Term) *Term {
	if a.IsConst() {
		return f.Bool(a.Val == 0)
	}
	if a.Op == OpBNot {
		return a.Args[0]
	}
	return f.mk(&Term{Op: OpBNot, W: 0, Args: []*Term{a}})
}

func (f *Factory) BAnd(a, b *Term) *Term {
	if a.IsConst() {
		if a.Val != 0 {
			return b
		}
		return a
	}
	if b.IsConst() {
		if b.Val != 0 {
			return a
		}
		return b
	}
	if a == b {
		return a
	}
	if (a.Op == OpBNot && a.Args[0] == b) || (b.Op == OpBNot && b.Args[0] == a) {
		return f.false
	}
	return f.mk(&Term{Op: OpBAnd, W: 0, Args: []*Term{a, b}})
}

func (f *Factory) BOr(a, b *Term) *Term {
	if a.IsConst() {
		if a.Val != 0 {
			return a
		}
		return b
	}
	if b.IsConst() {
		if b.Val != 0 {
			return b
		}
		return a
	}
	if a == b {
		return a
	}
	if (a.Op == OpBNot && a.Args[0] == b) || (b.Op == OpBNot && b.Args[0] == a) {
		return f.true_
	}
	return f.mk(&Term{Op: OpBOr, W: 0, Args: []*Term{a, b}})
}

// ---- printing ----

func sortOf(t *Term) string {
	if t.W == 0 {
		return "Bool"
	}
	return fmt.Sprintf("(_ BitVec %d)", t.W)
}

func constStr(t *Term) string {
	if t.W == 0 {
		if t.Val != 0 {
			return "true"
		}
		return "false"
	}
	if t.W%4 == 0 {
		return fmt.Sprintf("#x%0*x", t.W/4, t.Val)
	}
	return fmt.Sprintf("#b%0*b", t.W, t.Val)
}

// Printer emits define-fun lines for shared sub-terms incrementally.
type Printer struct {
	defined map[int]string // term id -> name usable in later commands
	stack   [][]int        // ids defined per push level
}

func NewPrinter() *Printer {
	return &Printer{defined: make(map[int]string), stack: [][]int{nil}}
}

// Has reports whether t has been emitted (declared/defined) in a live scope.
func (p *Printer) Has(t *Term) bool { _, ok := p.defined[t.ID]; return ok }

func (p *Printer) Push() { p.stack = append(p.stack, nil) }
func (p *Printer) Pop() {
	top := p.stack[len(p.stack)-1]
	for _, id := range top {
		delete(p.defined, id)
	}
	p.stack = p.stack[:len(p.stack)-1]
}
func (p *Printer) Reset() {
	p.defined = make(map[int]string)
	p.stack = [][]int{nil}
}

// Ref returns the SMT-LIB expression naming t, appending to out any
// declarations/definitions needed first.
func (p *Printer) Ref(t *Term, out *strings.Builder) string {
	if s, ok := p.defined[t.ID]; ok {
		return s
	}
	switch t.Op {
	case OpConst:
		return constStr(t)
	case OpVar:
		fmt.Fprintf(out, "(declare-const %s %s)\n", t.Name, sortOf(t))
		p.note(t.ID, t.Name)
		return t.Name
	}
	args := make([]string, len(t.Args))
	for i, a := range t.Args {
		args[i] = p.Ref(a, out)
	}
	var body string
	switch t.Op {
	case OpExtract:
		body = fmt.Sprintf("((_ extract %d %d) %s)", t.Hi, t.Lo, args[0])
	case OpZext:
		body = fmt.Sprintf("((_ zero_extend %d) %s)", t.W-t.Args[0].W, args[0])
	case OpSext:
		body = fmt.Sprintf("((_ sign_extend %d) %s)", t.W-t.Args[0].W, args[0])
	default:
		body = "(" + opNames[t.Op] + " " + strings.Join(args, " ") + ")"
	}
	name := fmt.Sprintf("t%d", t.ID)
	fmt.Fprintf(out, "(define-fun %s () %s %s)\n", name, sortOf(t), body)
	p.note(t.ID, name)
	return name
}

func (p *Printer) note(id int, name string) {
	p.defined[id] = name
	top := len(p.stack) - 1
	p.stack[top] = append(p.stack[top], id)
}

// String renders t as a self-contained expression (for diagnostics).
func (t *Term) String() string {
	switch t.Op {
	case OpConst:
		return constStr(t)
	case OpVar:
		return t.Name
	}
	args := make([]string, len(t.Args))
	for i, a := range t.Args {
		args[i] = a.String()
	}
	switch t.Op {
	case OpExtract:
		return fmt.Sprintf("((_ extract %d %d) %s)", t.Hi, t.Lo, args[0])
	case OpZext:
		return fmt.Sprintf("((_ zero_extend %d) %s)", t.W-t.Args[0].W, args[0])
	case OpSext:
		return fmt.Sprintf("((_ sign_extend %d) %s)", t.W-t.Args[0].W, args[0])
	}
	return "(" + opNames[t.Op] + " " + strings.Join(args, " ") + ")"
}

// ---- evaluation ----

// Eval computes t under the assignment (variables absent from m read as 0).
func Eval(t *Term, m map[string]uint64) uint64 {
	memo := make(map[int]uint64)
	return eval(t, m, memo)
}

func eval(t *Term, m map[string]uint64, memo map[int]uint64) uint64 {
	if t.Op == OpConst {
		return t.Val
	}
	if v, ok := memo[t.ID]; ok {
		return v
	}
	var r uint64
	a := func(i int) uint64 { return eval(t.Args[i], m, memo) }
	b2u := func(b bool) uint64 {
		if b {
			return 1
		}
		return 0
	}
	switch t.Op {
	case OpVar:
		r = m[t.Name] & mask64(t.W)
	case OpNot:
		r = ^a(0) & mask(t.W)
	case OpNeg:
		r = -a(0) & mask(t.W)
	case OpExtract:
		if t.Args[0].W > 64 {
			r = evalWideExtract(t, m, memo)
		} else {
			r = (a(0) >> uint(t.Lo)) & mask(t.W)
		}
	case OpConcat:
		if t.W > 64 {
			panic("term: eval of wide concat")
		}
		r = a(0)<<uint(t.Args[1].W) | a(1)
	case OpZext:
		r = a(0)
	case OpSext:
		r = uint64(sext64(a(0), t.Args[0].W)) & mask(t.W)
	case OpIte:
		if a(0) != 0 {
			r = a(1)
		} else {
			r = a(2)
		}
	case OpEq:
		if t.Args[0].W > 64 {
			panic("term: eval of wide eq")
		}
		r = b2u(a(0) == a(1))
	case OpUlt:
		r = b2u(a(0) < a(1))
	case OpUle:
		r = b2u(a(0) <= a(1))
	case OpSlt:
		r = b2u(sext64(a(0), t.Args[0].W) < sext64(a(1), t.Args[0].W))
	case OpSle:
		r = b2u(sext64(a(0), t.Args[0].W) <= sext64(a(1), t.Args[0].W))
	case OpBAnd:
		r = b2u(a(0) != 0 && a(1) != 0)
	case OpBOr:
		r = b2u(a(0) != 0 || a(1) != 0)
	case OpBNot:
		r = b2u(a(0) == 0)
	case OpSDiv, OpSRem:
		x, y := a(0), a(1)
		if y == 0 {
			// SMT-LIB semantics
			if t.Op == OpSRem {
				r = x
			} else if sext64(x, t.W) < 0 {
				r = 1
			} else {
				r = mask(t.W)
			}
		} else {
			r, _ = foldBin(t.Op, x, y, t.W)
		}
	default:
		var ok bool
		r, ok = foldBin(t.Op, a(0), a(1), t.W)
		if !ok {
			panic("term: cannot evaluate " + opNames[t.Op])
		}
	}
	memo[t.ID] = r
	return r
}

func mask64(w int) uint64 {
	if w == 0 {
		return 1
	}
	return mask(w)
}

func evalWideExtract(t *Term, m map[string]uint64, memo map[int]uint64) uint64 {
	// extract from a wide concat: walk down
	src := t.Args[0]
	hi, lo := t.Hi, t.Lo
	for src.Op == OpConcat {
		lw := src.Args[1].W
		if hi < lw {
			src = src.Args[1]
		} else if lo >= lw {
			src = src.Args[0]
			hi -= lw
			lo -= lw
		} else {
			panic("term: wide extract straddles concat")
		}
		if src.W <= 64 {
			return (eval(src, m, memo) >> uint(lo)) & mask(hi-lo+1)
		}
	}
	panic("term: wide extract of non-concat")
}

// Vars returns the variables occurring in t, sorted by name.
func VarsOf(ts ...*Term) []*Term {
	seen := map[int]bool{}
	var out []*Term
	var walk func(t *Term)
	walk = func(t *Term) {
		if seen[t.ID] {
			return
		}
		seen[t.ID] = true
		if t.Op == OpVar {
			out = append(out, t)
		}
		for _, a := range t.Args {
			walk(a)
		}
	}
	for _, t := range ts {
		walk(t)
	}
	sort.Slice(out, func(i, j int) bool { return out[i].Name < out[j].Name })
	return out
}

// URange returns a sound unsigned interval [lo, hi] for a bit-vector term of width <= 64.
func URange(t *Term) (uint64, uint64) { return urange(t) }
