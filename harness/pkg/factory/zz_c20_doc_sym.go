//go:build verif

package factory

import (
	"time"

	"github.com/asaskevich/govalidator"
)

// engine side of ZZ_C20_Document: the document is handed to the yaml.Unmarshal model through a
// global; govalidator.ValidateStruct is the model generated from the struct tags of this tree.

var zzCurDoc *zzDoc

func zzPutDoc(d *zzDoc) string {
	zzCurDoc = d
	return "cfg.yaml"
}

// zzTagValidator: govalidator looks a tag's validator up in TagMap. The engine does not run
// govalidator's initialiser, so the map holds exactly what go-upf's own code has registered by the
// time ValidateStruct is called (the cidr validator): that function is executed; for the library's
// own validators the classification table below stands in.
func zzTagValidator(tag, s string, library func(string) bool) bool {
	if f, ok := govalidator.TagMap[tag]; ok {
		return f(s)
	}
	return library(s)
}

func zzDoneDoc(path string) { zzCurDoc = nil }

func zzModelUnmarshalDoc(in []byte, out interface{}) error {
	if !zzCurDoc.decode(out.(*Config)) {
		return errZZStage
	}
	return nil
}

func zzIn(s string, alts ...string) bool {
	for _, a := range alts {
		if s == a {
			return true
		}
	}
	return false
}

// classification of the candidate strings of zzScalar by govalidator's string validators;
// a string outside the table ends the path (zzAssume(false) would hide it: it is asserted instead)
type zzClass struct{ host, ip, ipv4, dns, cidr bool }

var zzClasses = map[string]zzClass{
	"127.0.0.8":       {host: true, ip: true, ipv4: true},
	"127.0.0.9":       {host: true, ip: true, ipv4: true},
	"upf.free5gc.org": {host: true, dns: true},
	"no host!":        {},
	"10.60.0.0/16":    {cidr: true},
	"10.61.0.0/24":    {cidr: true},
	"10.60.0.0/33":    {},
	"10.60.0.0/16x":   {},
	"x10.60.0.0/16":   {},
	"127.0.0.8/24":    {cidr: true},
	"::1":             {host: true, ip: true},
	"[1, 2]":          {},
	"127.0.0.8 ":      {},
	"10.60.0.0/16 ":   {},
}

func zzClassOf(s string) zzClass {
	c, ok := zzClasses[s]
	zzAssert("C20.document.model.candidate-classified", ok)
	return c
}

func zzIsHost(s string) bool { return zzClassOf(s).host }
func zzIsIP(s string) bool   { return zzClassOf(s).ip }
func zzIsIPv4(s string) bool { return zzClassOf(s).ipv4 }
func zzIsDNS(s string) bool  { return zzClassOf(s).dns }
func zzIsCIDR(s string) bool { return zzClassOf(s).cidr }

// ---- models of the three library calls of ReadConfig (engine only) ----

func zzModelReadFile(name string) ([]byte, error) {
	if zzFailRead {
		return nil, errZZStage
	}
	return []byte("version: 1.0.3"), nil
}

func zzModelUnmarshal(in []byte, out interface{}) error {
	if zzCurDoc != nil {
		return zzModelUnmarshalDoc(in, out)
	}
	if zzFailYaml {
		return errZZStage
	}
	c := out.(*Config)
	c.Version = "1.0.3"
	c.Pfcp = &Pfcp{Addr: "127.0.0.8", NodeID: zzNodeID, RetransTimeout: 3 * time.Second, MaxRetrans: zzRetrans}
	c.Gtpu = &Gtpu{Forwarder: "gtp5g", IfList: []IfInfo{{Addr: "127.0.0.8", Type: "N3"}}}
	c.Logger = &Logger{Level: "info"}
	return nil
}

func zzModelValidateStruct(s interface{}) (bool, error) {
	if zzCurDoc != nil {
		return zzGenValidateStruct(s)
	}
	if zzFailValidate {
		return false, errZZStage
	}
	return true, nil
}

