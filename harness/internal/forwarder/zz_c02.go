//go:build verif

package forwarder

import (
	"github.com/wmnsk/go-pfcp/ie"

	"github.com/free5gc/go-gtp5gnl"
)

// C02: PDR and FAR reach the kernel exactly as the SMF specified them.
// Child IEs are built at wire level with symbolic payload bytes; the netlink request captured
// behind nl.DoHook is (1) decoded by go-gtp5gnl's own decoders and compared field by field with
// reference values computed from the payload bytes, (2) walked against the golden attribute
// type/nesting/width table, (3) required to be independent of child-IE order.

type zzPDRSpec struct {
	prec, srcIf, fteid, ueip, ohr, far bool
	nqer, nurr, nsdf               int
	sdfFD                          bool // first SDF filter carries a (concrete) flow description
	sdfFD2                         bool // ... and so does the second one (the same text: filters that differ only in their id)
}

type zzSDFExtra struct {
	ttc, spi, fl     bool
	ttcB, spiB, flB []byte
}

type zzPDRIn struct {
	sp      zzPDRSpec
	pdrid   []byte
	prec    []byte
	srcIfB  []byte
	fteid   []byte // flags(0x01) teid(4) ipv4(4)
	ueip    []byte // flags(0x02) ipv4(4)
	ohr     []byte
	far     []byte
	qer     [2][]byte
	urr     [2][]byte
	sdfBID  [2][]byte // SDF filter id (4 bytes) per filter
	sdfX    [2]zzSDFExtra
	blocks  [][]*ie.IE
	pdiKids []*ie.IE
}

const zzFD = "permit out 17 from 10.1.2.0/24 80 to 192.168.0.1 1000-2000"

func zzMkPDR(sp zzPDRSpec) *zzPDRIn {
	in := &zzPDRIn{sp: sp}
	in.pdrid = nondetBytes("pdrid", 2)
	b0 := []*ie.IE{ie.New(ie.PDRID, in.pdrid)}
	if sp.prec {
		in.prec = nondetBytes("precedence", 4)
		b0 = append(b0, ie.New(ie.Precedence, in.prec))
	}
	var pdi []*ie.IE
	if sp.srcIf {
		in.srcIfB = nondetBytes("srcif", 1)
		zzAssume(in.srcIfB[0] < 16) // well-formed: spare bits 5-8 are zero (TS 29.244 8.2.2)
		pdi = append(pdi, ie.New(ie.SourceInterface, in.srcIfB))
	}
	if sp.fteid {
		in.fteid = append([]byte{0x01}, nondetBytes("fteid", 8)...)
		pdi = append(pdi, ie.New(ie.FTEID, in.fteid))
	}
	if sp.ueip {
		in.ueip = append([]byte{0x02}, nondetBytes("ueip", 4)...)
		pdi = append(pdi, ie.New(ie.UEIPAddress, in.ueip))
	}
	for i := 0; i < sp.nsdf; i++ {
		in.sdfBID[i] = nondetBytes("sdfid", 4)
		if (i == 0 && sp.sdfFD) || (i == 1 && sp.sdfFD2) {
			p := []byte{0x11, 0, 0, byte(len(zzFD))}
			p = append(p, []byte(zzFD)...)
			p = append(p, in.sdfBID[i]...)
			pdi = append(pdi, ie.New(ie.SDFFilter, p))
		} else {
			// a filter without flow description may carry ToS Traffic Class (2 octets), Security
			// Parameter Index (4) and Flow Label (3) in front of its filter id, in that order
			x := &in.sdfX[i]
			flags := byte(0x10)
			p := []byte{0, 0}
			if x.ttc = nondetBool("sdf-ttc"); x.ttc {
				flags |= 0x02
				x.ttcB = nondetBytes("ttc", 2)
				p = append(p, x.ttcB...)
			}
			if x.spi = nondetBool("sdf-spi"); x.spi {
				flags |= 0x04
				x.spiB = nondetBytes("spi", 4)
				p = append(p, x.spiB...)
			}
			if x.fl = nondetBool("sdf-fl"); x.fl {
				flags |= 0x08
				x.flB = nondetBytes("fl", 3)
				p = append(p, x.flB...)
			}
			p[0] = flags
			pdi = append(pdi, ie.New(ie.SDFFilter, append(p, in.sdfBID[i]...)))
		}
	}
	in.pdiKids = pdi
	var b2 []*ie.IE
	if sp.ohr {
		in.ohr = nondetBytes("ohr", 1)
		b2 = append(b2, ie.New(ie.OuterHeaderRemoval, in.ohr))
	}
	if sp.far {
		in.far = nondetBytes("farid", 4)
		b2 = append(b2, ie.New(ie.FARID, in.far))
	}
	var b3 []*ie.IE
	for i := 0; i < sp.nqer; i++ {
		in.qer[i] = nondetBytes("qerid", 4)
		b3 = append(b3, ie.New(ie.QERID, in.qer[i]))
	}
	for i := 0; i < sp.nurr; i++ {
		in.urr[i] = nondetBytes("urrid", 4)
		b3 = append(b3, ie.New(ie.URRID, in.urr[i]))
	}
	in.blocks = [][]*ie.IE{b0, nil, b2, b3}
	return in
}

// group assembles the grouped IE with the blocks in permutation p and the PDI children reversed or not.
func (in *zzPDRIn) group(typ uint16, perm []int, revPDI bool) *ie.IE {
	var kids []*ie.IE
	pdi := in.pdiKids
	if revPDI {
		pdi = nil
		for i := len(in.pdiKids) - 1; i >= 0; i-- {
			pdi = append(pdi, in.pdiKids[i])
		}
	}
	for _, k := range perm {
		if k == 1 {
			if len(in.pdiKids) > 0 {
				kids = append(kids, ie.NewGroupedIE(ie.PDI, pdi...))
			}
			continue
		}
		kids = append(kids, in.blocks[k]...)
	}
	return ie.NewGroupedIE(typ, kids...)
}

func zzIP4Eq(ip []byte, want []byte) bool {
	return len(ip) == 4 && ip[0] == want[0] && ip[1] == want[1] && ip[2] == want[2] && ip[3] == want[3]
}

// checkPDR compares the captured request with the IE content.
func (in *zzPDRIn) checkPDR(attrs []byte, seid uint64, link uint32, create bool, revPDI bool, tag string) {
	sp := in.sp
	zzWalk("PDR", "", attrs, tag)
	pdr, err := gtp5gnl.DecodePDR(attrs)
	zzAssert("C02.pdr.decodes."+tag, err == nil && pdr != nil)
	if err != nil || pdr == nil {
		return
	}
	// object id: (SEID, PDR ID), link
	zzAssert("C02.pdr.id."+tag, pdr.ID == zzBE16(in.pdrid))
	zzAssert("C02.pdr.seid."+tag, pdr.SEID != nil && *pdr.SEID == seid)
	l, okl := zzFindAttr(attrs, gtp5gnl.LINK, 0)
	zzAssert("C02.pdr.link."+tag, okl && len(l) == 4 && zzLE32(l) == link)
	zzAssert("C02.pdr.single-id-attrs."+tag, zzCountAttr(attrs, gtp5gnl.PDR_ID) == 1 && zzCountAttr(attrs, gtp5gnl.PDR_SEID) == 1 && zzCountAttr(attrs, gtp5gnl.LINK) == 1)
	// precedence
	zzAssert("C02.pdr.precedence.presence."+tag, (pdr.Precedence != nil) == sp.prec)
	if sp.prec && pdr.Precedence != nil {
		zzAssert("C02.pdr.precedence."+tag, *pdr.Precedence == zzBE32(in.prec))
	}
	// outer header removal
	zzAssert("C02.pdr.ohr.presence."+tag, (pdr.OuterHdrRemoval != nil) == sp.ohr)
	if sp.ohr && pdr.OuterHdrRemoval != nil {
		zzAssert("C02.pdr.ohr."+tag, *pdr.OuterHdrRemoval == in.ohr[0])
	}
	// linked rules
	zzAssert("C02.pdr.farid.presence."+tag, (pdr.FARID != nil) == sp.far)
	if sp.far && pdr.FARID != nil {
		zzAssert("C02.pdr.farid."+tag, *pdr.FARID == zzBE32(in.far))
	}
	zzAssert("C02.pdr.qerids.count."+tag, len(pdr.QERID) == sp.nqer)
	for i := 0; i < sp.nqer && i < len(pdr.QERID); i++ {
		zzAssert("C02.pdr.qerid."+tag, pdr.QERID[i] == zzBE32(in.qer[i]))
	}
	zzAssert("C02.pdr.urrids.count."+tag, len(pdr.URRID) == sp.nurr)
	for i := 0; i < sp.nurr && i < len(pdr.URRID); i++ {
		zzAssert("C02.pdr.urrid."+tag, pdr.URRID[i] == zzBE32(in.urr[i]))
	}
	// the buffering socket path is attached on create only
	zzAssert("C02.pdr.unix-socket-path."+tag, (zzCountAttr(attrs, gtp5gnl.PDR_UNIX_SOCKET_PATH) == 1) == create)
	// PDI
	hasPDI := len(in.pdiKids) > 0
	zzAssert("C02.pdr.pdi.presence."+tag, (pdr.PDI != nil) == hasPDI)
	if !hasPDI || pdr.PDI == nil {
		return
	}
	pdi := pdr.PDI
	zzAssert("C02.pdi.srcif.presence."+tag, (pdi.SrcIntf != nil) == sp.srcIf)
	if sp.srcIf && pdi.SrcIntf != nil {
		zzAssert("C02.pdi.srcif."+tag, *pdi.SrcIntf == in.srcIfB[0]&0x0f)
	}
	zzAssert("C02.pdi.fteid.presence."+tag, (pdi.FTEID != nil) == sp.fteid)
	if sp.fteid && pdi.FTEID != nil {
		zzAssert("C02.pdi.fteid.teid."+tag, pdi.FTEID.TEID == zzBE32(in.fteid[1:5]))
		zzAssert("C02.pdi.fteid.addr."+tag, zzIP4Eq(pdi.FTEID.GTPuAddr, in.fteid[5:9]))
	}
	zzAssert("C02.pdi.ueip.presence."+tag, (pdi.UEAddr != nil) == sp.ueip)
	if sp.ueip && pdi.UEAddr != nil {
		zzAssert("C02.pdi.ueip."+tag, zzIP4Eq(pdi.UEAddr, in.ueip[1:5]))
	}
	// SDF filters: one PDI_SDF_FILTER attribute per filter, in IE order, read from the raw attributes
	pdiRaw, _ := zzFindAttr(attrs, gtp5gnl.PDR_PDI, 0)
	zzAssert("C02.pdi.sdf.count."+tag, zzCountAttr(pdiRaw, gtp5gnl.PDI_SDF_FILTER) == sp.nsdf)
	for i := 0; i < sp.nsdf; i++ {
		k := i
		if revPDI {
			k = sp.nsdf - 1 - i
		}
		f, okf := zzFindAttr(pdiRaw, gtp5gnl.PDI_SDF_FILTER, i)
		zzAssert("C02.pdi.sdf.present."+tag, okf)
		if !okf {
			continue
		}
		sdf, err := gtp5gnl.DecodeSDFFilter(f)
		zzAssert("C02.pdi.sdf.decodes."+tag, err == nil)
		if err != nil {
			continue
		}
		zzAssert("C02.pdi.sdf.filter-id."+tag, sdf.BID != nil && *sdf.BID == zzBE32(in.sdfBID[k]))
		// ToS / SPI / flow label: present exactly when flagged, carrying the SMF's octets (the byte
		// order the kernel wants is not documented: either order is accepted)
		x := in.sdfX[k]
		zzAssert("C02.pdi.sdf.ttc.presence."+tag, (sdf.TTC != nil) == x.ttc)
		if x.ttc && sdf.TTC != nil {
			be := uint16(x.ttcB[0])<<8 | uint16(x.ttcB[1])
			le := uint16(x.ttcB[1])<<8 | uint16(x.ttcB[0])
			zzAssert("C02.pdi.sdf.ttc.value."+tag, *sdf.TTC == be || *sdf.TTC == le)
		}
		zzAssert("C02.pdi.sdf.spi.presence."+tag, (sdf.SPI != nil) == x.spi)
		if x.spi && sdf.SPI != nil {
			be := zzBE32(x.spiB)
			le := uint32(x.spiB[3])<<24 | uint32(x.spiB[2])<<16 | uint32(x.spiB[1])<<8 | uint32(x.spiB[0])
			zzAssert("C02.pdi.sdf.spi.value."+tag, *sdf.SPI == be || *sdf.SPI == le)
		}
		zzAssert("C02.pdi.sdf.fl.presence."+tag, (sdf.FL != nil) == x.fl)
		if x.fl && sdf.FL != nil {
			be := uint32(x.flB[0])<<16 | uint32(x.flB[1])<<8 | uint32(x.flB[2])
			le := uint32(x.flB[2])<<16 | uint32(x.flB[1])<<8 | uint32(x.flB[0])
			zzAssert("C02.pdi.sdf.fl.value."+tag, *sdf.FL == be || *sdf.FL == le)
		}
		wantFD := (k == 0 && sp.sdfFD) || (k == 1 && sp.sdfFD2)
		zzAssert("C02.pdi.sdf.fd.presence."+tag, (sdf.FD != nil) == wantFD)
		if wantFD && sdf.FD != nil {
			in.checkFD(sdf.FD, tag)
		}
	}
}

// checkFD: the concrete flow description zzFD, source and destination exchanged for uplink PDRs
// (source interface Access = 0).
func (in *zzPDRIn) checkFD(fd *gtp5gnl.FlowDesc, tag string) {
	uplink := in.sp.srcIf && in.srcIfB[0]&0x0f == 0
	src, dst := []byte{10, 1, 2, 0}, []byte{192, 168, 0, 1}
	smask, dmask := []byte{255, 255, 255, 0}, []byte{255, 255, 255, 255}
	sport, dport := [][]uint16{{80}}, [][]uint16{{1000, 2000}}
	if uplink {
		src, dst = dst, src
		smask, dmask = dmask, smask
		sport, dport = dport, sport
		zzCover("C02.fd.uplink")
	} else {
		zzCover("C02.fd.downlink")
	}
	zzAssert("C02.fd.action-dir-proto."+tag, fd.Action == gtp5gnl.SDF_FILTER_PERMIT && fd.Dir == gtp5gnl.SDF_FILTER_OUT && fd.Proto == 17)
	zzAssert("C02.fd.src."+tag, zzIP4Eq(fd.Src.IP, src) && zzIP4Eq(fd.Src.Mask, smask))
	zzAssert("C02.fd.dst."+tag, zzIP4Eq(fd.Dst.IP, dst) && zzIP4Eq(fd.Dst.Mask, dmask))
	zzAssert("C02.fd.sports."+tag, zzPortsEq(fd.SrcPorts, sport))
	zzAssert("C02.fd.dports."+tag, zzPortsEq(fd.DstPorts, dport))
}

func zzPortsEq(a, b [][]uint16) bool {
	if len(a) != len(b) {
		return false
	}
	for i := range a {
		// a single port is reported by the decoder as the pair (p, p) or as (p)
		lo, hi := a[i][0], a[i][len(a[i])-1]
		if lo != b[i][0] || hi != b[i][len(b[i])-1] {
			return false
		}
	}
	return true
}

func zzPDRProfile(p int) zzPDRSpec {
	switch p {
	case 0: // everything, two of each multi-valued IE, flow description
		return zzPDRSpec{prec: true, srcIf: true, fteid: true, ueip: true, ohr: true, far: true, nqer: 2, nurr: 2, nsdf: 2, sdfFD: true}
	case 1: // minimal
		return zzPDRSpec{}
	case 2: // typical downlink: UE address, one of each
		return zzPDRSpec{prec: true, srcIf: true, ueip: true, far: true, nqer: 1, nurr: 1, nsdf: 1}
	case 3: // repeated SDF filters without flow description (they differ in id, ToS, SPI, flow label)
		return zzPDRSpec{prec: true, srcIf: true, ueip: true, far: true, nsdf: 2}
	case 4: // repeated SDF filters with the same flow description text, different ids
		return zzPDRSpec{prec: true, srcIf: true, ueip: true, far: true, nsdf: 2, sdfFD: true, sdfFD2: true}
	}
	// thorough: all presence subsets, by bits
	q := p - 5
	sp := zzPDRSpec{prec: q&1 != 0, srcIf: q&2 != 0, fteid: q&4 != 0, ueip: q&8 != 0, ohr: q&16 != 0, far: q&32 != 0}
	sp.nqer = (q >> 6) % 3
	sp.nurr = (q >> 6) / 3 % 3
	sp.nsdf = (q >> 6) / 9 % 3
	sp.sdfFD = sp.nsdf > 0 && q&1 != 0
	// well-formed: Source Interface is mandatory in a PDI (TS 29.244 table 7.5.2.2-2). A PDI without
	// it is outside "every well-formed Create/Update PDR"; what the driver does with it (it treats
	// the missing value as Access and swaps the filter) is not something the property defines.
	if sp.fteid || sp.ueip || sp.nsdf > 0 {
		sp.srcIf = true
	}
	return sp
}

func zzC02PDR(nprofiles int, nperm int, update bool) {
	k := zzInstallKernel()
	link := nondetU32("link")
	seid := nondetU64("seid")
	g := zzGtp5g(link)
	sp := zzPDRProfile(nondetChoice("profile", nprofiles))
	in := zzMkPDR(sp)
	perm := zzPerm(4, nondetChoice("perm", nperm))
	rev := nondetChoice("pdi-reversed", 2) == 1
	typ, op := uint16(ie.CreatePDR), "CreatePDR"
	if update {
		typ, op = ie.UpdatePDR, "UpdatePDR"
	}
	req := in.group(typ, perm, rev)
	var err error
	if update {
		err = g.UpdatePDR(seid, req)
	} else {
		err = g.CreatePDR(seid, req)
	}
	zzAssert("C02.pdr.accepted", err == nil)
	attrs, ok := zzOneReq(k, 0, op, "pdr")
	if !ok {
		return
	}
	zzObserve("request", k.reqs[0].b)
	in.checkPDR(attrs, seid, link, !update, rev, "pdr")
	zzCover("C02.pdr.done")
}

func zzC02RemovePDR() {
	k := zzInstallKernel()
	link := nondetU32("link")
	seid := nondetU64("seid")
	g := zzGtp5g(link)
	id := nondetBytes("pdrid", 2)
	err := g.RemovePDR(seid, ie.NewGroupedIE(ie.RemovePDR, ie.New(ie.PDRID, id)))
	zzAssert("C02.rmpdr.accepted", err == nil)
	attrs, ok := zzOneReq(k, 0, "RemovePDR", "rmpdr")
	if !ok {
		return
	}
	zzWalk("PDR", "", attrs, "rmpdr")
	pdr, err := gtp5gnl.DecodePDR(attrs)
	zzAssert("C02.rmpdr.decodes", err == nil)
	if err == nil {
		zzAssert("C02.rmpdr.oid", pdr.ID == zzBE16(id) && pdr.SEID != nil && *pdr.SEID == seid)
	}
	l, okl := zzFindAttr(attrs, gtp5gnl.LINK, 0)
	zzAssert("C02.rmpdr.link", okl && len(l) == 4 && zzLE32(l) == link)
	zzCover("C02.rmpdr.done")
}

func zzNProf() int {
	if zzTier() == 1 {
		return 3 + 64*27
	}
	return 3
}

func zzNPerm() int {
	if zzTier() == 1 {
		return 24
	}
	return 6
}

func ZZ_C02_CreatePDR() { zzC02PDR(5, zzNPerm(), false) }
func ZZ_C02_UpdatePDR() { zzC02PDR(5, zzNPerm(), true) }
func ZZ_C02_RemovePDR() { zzC02RemovePDR() }

// all presence subsets in canonical order (thorough only)
func ZZ_C02_PDRSubsets() {
	if zzTier() == 0 {
		zzCover("C02.pdr.done")
		return
	}
	k := zzInstallKernel()
	link := nondetU32("link")
	seid := nondetU64("seid")
	g := zzGtp5g(link)
	sp := zzPDRProfile(5 + nondetChoice("subset", 64*27))
	in := zzMkPDR(sp)
	err := g.CreatePDR(seid, in.group(ie.CreatePDR, []int{0, 1, 2, 3}, false))
	zzAssert("C02.pdr.accepted", err == nil)
	if attrs, ok := zzOneReq(k, 0, "CreatePDR", "pdr"); ok {
		in.checkPDR(attrs, seid, link, true, false, "pdr")
	}
	zzCover("C02.pdr.done")
}
