//go:build verif

package pfcp

import (
	"github.com/wmnsk/go-pfcp/ie"

	"github.com/free5gc/go-upf/internal/forwarder"
)

// C07 (e) session churn: nothing but well-formed requests from one associated peer - sessions
// established and deleted in every order, the association set up again in between - through the real
// event loop. Every request is answered, establishments are accepted, and afterwards a Heartbeat is
// still answered: the bookkeeping that hands out and takes back session ids survives every order
// of use.
func zzC07Churn(depth int) {
	lp := &zzLoop{zzWorld: zzNewWorld(zzFAR, false)}
	lp.s.driver = forwarder.Empty{}
	zzTrack(lp.s)
	lp.s.Start(&lp.wg)
	zzYield()
	seq := uint32(1)
	lp.feed(zzMarshal(zzAssocReq(seq, zzNodeA)), zzAddrA)
	zzAssert("C07.churn.prefix", zzSentCount() == 1)
	for i := 0; i < depth; i++ {
		seq++
		before := zzSentCount()
		op := nondetChoice("op", 5)
		switch op {
		case 0:
			lp.feed(zzMarshal(zzEstReq(seq, ie.NewNodeID(zzNodeA, "", ""), ie.NewFSEID(uint64(0x70+i), []byte{127, 0, 0, 1}, nil),
				ie.NewCreateFAR(ie.NewFARID(9), ie.NewApplyAction(2)))), zzAddrA)
		case 4:
			lp.feed(zzMarshal(zzAssocReq(seq, zzNodeA)), zzAddrA)
		default:
			lp.feed(zzMarshal(zzDelReq(uint64(op), seq)), zzAddrA)
		}
		zzAssert("C07.churn.request-answered", zzSentCount() == before+1)
		if zzSentCount() != before+1 {
			return
		}
		b := zzSentBytes(before)
		h := zzParseHdr(b)
		zzAssert("C07.churn.response-wellformed", h.ok && h.seq == seq)
		if op == 0 {
			c, okc := zzFindIE(b, h, 19)
			zzAssert("C07.churn.establishment-accepted", h.typ == 51 && okc && len(c) == 1 && c[0] == 1)
		}
	}
	before := zzSentCount()
	lp.feed(zzMarshal(zzHbReq(77)), zzAddrB)
	zzAssert("C07.churn.heartbeat-answered", zzSentCount() == before+1)
	lp.stop()
	zzCover("C07.churn.done")
}

func ZZ_C07_Churn() { zzC07Churn(5 + 2*zzTier()) }
