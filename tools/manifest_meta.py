NOT_APPLICABLE = {
    "C17": "data-race freedom and exactly-once processing under pre-emptive goroutine interleavings (Go memory model) cannot be encoded by a sequential SSA->SMT executor with cooperative coroutines; no engine for it exists in the image (DESIGN.md section 7)",
    "C18": "liveness over unbounded fair schedules whose failure needs >512 and >128 queued events at once; a bounded symbolic unrolling of the real queue capacities is out of reach and shrinking them would no longer be the real code (DESIGN.md section 7)",
}

META = {
    "C14": {
        "text": "Bounded model checking of gtpv1.Message.Len/Encode and PDUSessionContainer.Encode: for every payload length in the bound and both header forms, QFI, PDU type, TEID and all payload bytes are solver variables and a reference G-PDU decoder written from TS 29.281/38.415 is asserted on the output; complete in QFI x type x TEID x bytes for those lengths.",
        "design_ref": "DESIGN.md section 6 C14",
        "note": "Trusted: go/ssa construction, the gosymx interpreter (validated on every run by replaying solver models natively and comparing observations), z3. Bounds: payload 0..16 (quick) / 0..64,1400,1500 (thorough).",
    },
    "C19": {
        "text": "Bounded model checking of the flag codecs in internal/report against a table transcribed from TS 29.244: one obligation per (flag, IE length) with all octets symbolic, so each verdict is complete over all octet values (subsumes the 2^16/2^24 enumerations).",
        "design_ref": "DESIGN.md section 6 C19",
        "note": "Trusted: spec/ts29244_flags.json (hand transcription of the TS), engine as for C14. go-pfcp's IE constructors are executed symbolically, not stubbed.",
    },
    "C04": {
        "text": "One inductive step over the SEID table, decided by the solver: for every table shape within the bound that satisfies the representation invariant, each operation (lookup, allocation, deletion, node reset, remote lookup, Modification/Deletion request addressed by header SEID) is executed on the real code with unconstrained 64-bit SEID arguments; the invariant and the post-condition (found iff live, right session, no side effect on a miss, non-zero fresh id, release only after removal) are asserted afterwards. Histories of any length over tables of that size follow by induction.",
        "design_ref": "DESIGN.md section 6 C04, Appendix F.2",
        "note": "Trusted: the invariant I1-I4 is strong enough (checked executable on every pre-state), engine + z3, model data plane zzDP for the removal ordering. Bound: table length <= 3 (quick) / 4 (thorough), two control-plane nodes.",
    },
    "C12": {
        "text": "One inductive step on the PDR<->URR reference invariant plus bounded histories, both through the real Session Modification/Deletion handlers: for every reference state in the bound the request is executed with symbolic rule ids and URR lists, the invariant (refcount == number of PDRs whose current list names the URR) is re-established, and the usage reports decoded from the response bytes by a reference decoder are compared with the ghost expectation (exactly one TERMR report per URR that ends or loses its last reference, IMMER for queries, none otherwise).",
        "design_ref": "DESIGN.md section 6 C12, Appendix F.3",
        "note": "Trusted: invariant strength, model data plane contract (one report per successful remove/query), engine + z3. Bound: <= 2 PDRs x <= 2 (quick) / 3 (thorough) URR ids, one rule IE per request; histories of depth 3 (quick) / 4 (thorough) from an empty session.",
    },
    "C01": {
        "text": "Bounded model checking of request histories through the real PFCP handlers against a model data plane: every create/update/query data-plane call takes a fresh symbolic fault Boolean, so one symbolic run covers every subset of failing calls; rule ids are unconstrained symbolic values (colliding, repeated, never-created, removed-twice ids are inside the quantifier). After every step the data-plane call log and rule table are checked against a ghost built from the requests: calls only for the addressed live session, creates only for ids named by a Create IE, update/remove/query only for rules created and not yet removed, every rule belongs to a live session, and a session that ends (deletion, re-association, SEID-0 report response) leaves no rule behind.",
        "design_ref": "DESIGN.md section 6 C01, Appendix F.1",
        "note": "Trusted: model data plane zzDP (Appendix F.1), engine + z3, native replay of witnesses. Bound: 3 (quick) / 4 (thorough) steps after an association, one shard per rule kind plus a PDR+URR shard (one step shorter).",
    },
    "C05": {
        "text": "Frame check decided by the solver: a bystander session with rules of all kinds, a buffered packet and a UR-SEQN counter is snapshotted, one arbitrary request/notification is processed for an acting session whose rule ids and CP SEID are symbolic and may coincide with the bystander's, and the bystander's session state, queue and data-plane rules are asserted unchanged with every triggered data-plane call tagged with the acting SEID; re-association and SEID-0 report responses must remove exactly the sessions the statement names; takeover followed by re-association is checked over all three node ids.",
        "design_ref": "DESIGN.md section 6 C05",
        "note": "Trusted: as C01. Known findings (open): takeover via PfcpServer.UpdateNodeID renames the whole node / overwrites an existing association (5 scenario keys in known_findings.json). Bound: two sessions, two nodes, single step (plus delete+reuse, takeover+re-association).",
    },
    "C11": {
        "text": "Bounded model checking of histories over the three UR-SEQN carriers with a ghost counter per URR incarnation: URR 1 starts at an arbitrary symbolic sequence position (so the step is inductive in the counter value), the data plane may return several reports for one URR in one response, and every UR-SEQN IE decoded from the sent datagrams must equal the ghost value, which then increments; re-creation resets it; a second harness checks independence across sessions with equal URR ids.",
        "design_ref": "DESIGN.md section 6 C11, Appendix F.4",
        "note": "Trusted: relaxed model data plane, reference Usage Report decoder in the harness, engine + z3. Bound: 3 (quick) / 4 (thorough) steps, <= 2 URRs.",
    },
    "C08": {
        "text": "Bounded model checking of the request handlers with a byte-level reference decoder (TS 29.244 7.2.2) on every datagram sent: destination, echoed 24-bit sequence number, response type, header SEID (peer's CP SEID, or 0 iff cause 'session context not found' iff the addressed SEID is not live, for an unconstrained 64-bit header SEID), Node ID and UP F-SEID of the Establishment Response (and that a Modification to that SEID acts on the new session), Created PDR IEs exactly for PDRs with a UE address, no trace in session/node/data-plane state for requests that are not answered or answered with an error, one recovery time stamp equal to the start instant.",
        "design_ref": "DESIGN.md section 6 C08",
        "note": "Trusted: reference decoder in the harness, engine + z3; native replay uses real loop-back sockets. Bound: one or two requests per run, 9 request shapes, 1 (quick) / 3 (thorough) start instants.",
    },
    "C06": {
        "text": "Bounded model checking of the real event loop (PfcpServer.main and receiver executed as coroutines): two request templates with symbolic 24-bit sequence numbers and sources (equal or not - the solver splits), copies of them and retention-timer expiries fed in every order; after each event the loop runs to quiescence and a ghost of the retention table (Appendix F.5) decides whether the copy had to be executed, re-answered byte-identically, or ignored, and that expiry releases the bookkeeping; on Stop all timers in the tables are stopped and both goroutines end.",
        "design_ref": "DESIGN.md section 6 C06, Appendix F.5",
        "note": "Trusted: cooperative coroutine model (one event processed at a time is what the loop's select does), engine + z3; native replay drives the real goroutines over loop-back sockets. Bound: 3 (quick) / 4 (thorough) events, 2 keys, 5 request kinds.",
    },
    "C09": {
        "text": "Bounded model checking of the TX transaction path through the real event loop: the 32-bit transmit counter is symbolic over the whole 24-bit range (the second request crosses the 2^24 boundary), retry limit 0..3, 1..2 Session Report Requests, then retransmission-timer expiries and Session Report Responses (either peer, symbolic sequence) in every order; a ghost of the outstanding-request table keyed by the wire sequence octets decides retransmission (byte-identical, at most MaxRetrans times), matching, abandonment and that unmatched responses have no effect.",
        "design_ref": "DESIGN.md section 6 C09, Appendix F.5",
        "note": "Trusted: as C06. Bound: <= 2 outstanding requests, 3 (quick) / 4 (thorough) events.",
    },
    "C02": {
        "text": "Bounded model checking of the IE -> netlink translation for PDR and FAR: child IEs are built at wire level with every payload byte, the 64-bit SEID and the link index symbolic; the request captured behind nl.(*Client).Do is decoded by go-gtp5gnl's own decoders and compared field by field with reference values computed from the payload bytes, walked against a golden attribute type/nesting/width table, and required to be independent of child-IE order (block permutations, reversed grouped children).",
        "design_ref": "DESIGN.md section 6 C02",
        "note": "Trusted: go-gtp5gnl decoders + golden width table as the 'independent decoder of the gtp5g netlink format' (kernel sources unavailable), engine + z3. Bound: 3 presence profiles x 6 block permutations (quick); all 1728 PDR / 144 FAR presence subsets plus 24 permutations (thorough).",
    },
    "C03": {
        "text": "Same machinery for QER, URR and BAR: 40-bit rates checked through the (high32<<8)|low8 identity for UL and DL separately, flag octets, LE-widened trigger word, threshold/quota volumes present iff flagged, BAR delay and packet count, plus the periodic registration read back from the perio server's queue (registered iff PERIO, with period == seconds x 1e9) for Create, Update-after-Create and Remove.",
        "design_ref": "DESIGN.md section 6 C03",
        "note": "Trusted: as C02. Known findings (open): Gtp5g.UpdateURR never (un)registers periodic reporting (3 keys). Bound: 3 presence profiles (quick) / all subsets (thorough), all rotations of the child order, plain and reversed.",
    },
    "C16": {
        "text": "Bounded model checking over rule templates: the flow-description string is assembled from fixed keywords and symbolic decimal digits, pushed through the real ParseFlowDesc / ParseFlowDescIPNet / ParseFlowDescPorts / convertSlice / newFlowDesc (real strings.Fields, Split, strconv.ParseUint, net.CIDRMask, IP.Mask), encoded to netlink attributes and decoded by go-gtp5gnl's DecodeFlowDesc; the decoded action, direction, protocol, networks, masks and port pairs are asserted equal to the values computed from the digits (source and destination exchanged for uplink), out-of-range fields must be rejected, near-miss keywords must be rejected and arbitrary short ASCII strings must not fault.",
        "design_ref": "DESIGN.md section 6 C16",
        "note": "Trusted: Go-source models of net.ParseCIDR/ParseIP for symbolic text (differential-tested against the real functions by every native replay), go-gtp5gnl DecodeFlowDesc, engine + z3. Bound: 24 (quick) / 62 (thorough) templates x uplink/downlink; near-miss words <= 4 bytes; free strings <= 6 / 8 bytes.",
    },
    "C15": {
        "text": "Bounded model checking of perio.Server: the real Serve loop and the real ticker goroutines run as coroutines, fed with registrations, removals, ticks (live and stale) and close in every order; a ghost registration map decides, per processed tick, the exact set of (SEID, URR) pairs that must be queried, that each returned report is delivered once, marked periodic, under its own SEID, and that exactly one ticker coroutine exists per non-empty period (none after close). Batching is checked on the real queryMultiURR against the simulated kernel at sizes around multiples of the real per-message limit.",
        "design_ref": "DESIGN.md section 6 C15, Appendix F.6",
        "note": "Trusted: cooperative coroutine model, engine + z3. The batching harness has concrete ids (its control flow is what matters); it is decided by the same engine but has no symbolic input. Bound: 5 (quick) / 6 (thorough) events over 3 pairs x 2 periods.",
    },
    "C13": {
        "text": "Bounded model checking of both sides of the buffering path. PFCP side: ServeReport(DLDR) / Sess.Push / Pop / PopBufPkt with sessions built by the real constructor at small capacities: the ghost queue (accepted prefix in arrival order, newest dropped when full) must equal what PopBufPkt returns, a Session Report Request naming the PDR is sent to the owner iff NOCP, and nothing can be popped after session end or SEID reuse. Data-plane side: buffnetlink.ServeMsg decoding, and Gtp5g.UpdateFAR -> applyAction -> WritePacket against a simulated kernel: the FAR looked up is the FAR being updated whatever the IE order, only the queues of the FAR's PDRs of the same session are touched, DROP discards, FORW re-injects each packet once, in order, as a G-PDU to the FAR's peer with its TEID and the first non-zero QFI, otherwise nothing moves.",
        "design_ref": "DESIGN.md section 6 C13",
        "note": "Trusted: simulated kernel replies built with go-nl's encoder, engine + z3; native replay uses real loop-back sockets for the GTP-U side. Bound: see evidence (capacities 1..2 / 1..3, one concrete run at 512).",
    },
    "C10": {
        "text": "Bounded model checking of the usage-report path on both sides of report.Handler. Data-plane side: buffnetlink.ServeMsg on a REPORT message encoded by the harness from symbolic fields (URR ids, SEIDs, six 64-bit counters, every single-cause trigger word) and the query/update/remove result conversions of the gtp5g driver: each session present gets exactly one notification with its reports in order and every field equal to what the kernel sent. PFCP side: ServeReport/serveUSAReport and the Modification/Deletion responses: a byte-level reference decoder checks owner address, peer SEID, one Usage Report IE per known URR in order, URR id, trigger word, NTP start/end times (absent for START/STOPT/MACAR), Volume Measurement present iff VOLUM with flags 0x07/0x3f per MNOP and the counters bit-exact, Duration Measurement iff DURAT; unknown sessions and URRs are dropped without disturbing the rest of the batch.",
        "design_ref": "DESIGN.md section 6 C10",
        "note": "Trusted: reply encoder built on go-nl's attribute encoder, reference IE decoder, engine + z3. Instants and durations are concrete samples (the conversions divide by 10^9 / go through float64). Bound: batches of <= 2 (quick) / 3 (thorough) reports.",
    },
    "C20": {
        "text": "PARTIAL. Decided: (1) the gtp5g version window - Gtp5g.checkVersion against the simulated kernel with every digit of [v]X.Y.Z symbolic, the oracle being the property's bounds 0.9.5 <= v < 0.10.0 hard-wired (so a changed constant or comparison is a violation); (2) forwarder.NewDriver opens nothing for an invalid gtpu section and otherwise exactly the first interface at port 2152 with its MTU, propagating open failure; (3) ReadConfig returns (nil, error) whenever any stage fails and the unmarshalled values unchanged otherwise. (4) which configuration documents are accepted: a valid reference document perturbed by every choice of up to 2 (thorough: 3) faults among 17 fields x 5 fault kinds goes through ReadConfig with a validator model generated on every run from the struct tags of the working tree; ReadConfig must accept iff the property's hand-written definition of a valid configuration does, and accepted values must be unchanged; every explored document is also run natively through the real yaml.v2 + govalidator + ReadConfig as a file, so the tag model and the YAML model are cross-validated on each run. Still PARTIAL: documents that are not perturbations of the reference document, tags outside the modelled vocabulary (exit 2), DNS-dependent node ids.",
        "design_ref": "DESIGN.md section 6 C20 and section 7",
        "note": "Trusted: go-version NewVersion/Compare models (replayed natively against the real library on every witness), engine-only models for OpenGtp5g / os.ReadFile / yaml.Unmarshal / govalidator.ValidateStruct (parts 2 and 3 have no native replay); part 4 trusts the generated validator model and the YAML model only as far as the per-run native cross-validation of every explored document goes.",
    },
    "C07": {
        "text": "Bounded model checking through the real event loop, in two families. (a) Envelope: after a valid prefix that creates and deletes sessions, one datagram of n fully symbolic octets (quick: every n<=12 with any of the 256 message types, n in 8..14 with a dispatched type; thorough: n<=16 / 8..18), from the associated or an unknown peer, goes through rcvCh -> go-pfcp message.Parse (header, message and IE decoders executed symbolically) -> transactions -> dispatcher -> handlers -> driver; then a Heartbeat must be answered with the right type and sequence number and the bystander session must be intact unless the datagram addressed it. This family found the empty-datagram shutdown (n=0), fixed in 6889c4c. (b) IE payloads: for each of 39 leaf IE types go-upf or the gtp5g driver decodes, a request whose one IE of that type carries a symbolic payload of every length 0..nominal+2 is marshalled, fed to PfcpServer.main (so its recover -> log.Fatalf is observed as 'the process exits'), with the no-op driver and with the gtp5g driver on a simulated kernel; afterwards a Heartbeat must be answered and a bystander session must be intact. Every reachable panic is a solver query on the faulting condition. Header-SEID addressing over the whole 64-bit range is decided by C04's request-header harnesses.",
        "design_ref": "DESIGN.md section 6 C07 (a), (b) and (c); section 0.4",
        "note": "PARTIAL in depth, not in kind: raw datagrams longer than the stated n (the maximum is 1500 octets) and histories with more than one raw datagram are outside the bound; also not covered: several malformed IEs in one message, non-ASCII flow-description text. Known findings (open): two go-pfcp accessor panics reached through the gtp5g driver (Outer Header Creation with C-TAG/S-TAG, SDF Filter FD length) that PfcpServer.main turns into log.Fatalf.",
    },
}
