//go:build verif

package perio

func zzYield()
func zzGoroutines() int
func zzTimersActive() int

var zzResetHook func()
