//go:build verif

package pfcp

import (
	"net"
	"github.com/wmnsk/go-pfcp/ie"
	"github.com/wmnsk/go-pfcp/message"

	"github.com/free5gc/go-upf/internal/report"
)

// C09: UPF-initiated requests are retried, matched and retired correctly.
// Ghost (DESIGN.md Appendix F.5): Out : (peer, wire seq) -> (request bytes, sends).

type zzOut struct {
	peer    int
	counter uint32 // value of the 32-bit transmit counter when the request was created
	wire    uint32 // the three sequence octets actually on the wire
	b       []byte
	sends   int
	live    bool
	id      string // the implementation's own id of the transaction
	hasID   bool
}

func zzC09(depth int) {
	l := zzStartLoop(false)
	maxr := nondetChoice("maxretrans", 4)
	l.s.cfg.Pfcp.MaxRetrans = uint8(maxr)
	// two sessions, one per peer, each with URR 1
	for k := 0; k < 2; k++ {
		n := l.s.NewNode(zzNodeID(k), zzAddr(k), l.dp)
		l.s.rnodes[zzNodeID(k)] = n
		ss := n.NewSess(uint64(0x70 + k))
		info := &URRInfo{}
		info.VOLUM = true
		ss.URRIDs[1] = info
	}
	c0 := nondetU32("txseq")
	// the counter is 32 bits wide and only ever incremented: any value, incl. both sides of 2^24 and of 2^32
	l.s.txSeq = c0
	nreq := 1 + nondetChoice("nreq", 2)
	var out [2]zzOut
	for i := 0; i < nreq; i++ {
		si := nondetChoice("report-session", 2)
		before := zzSentCount()
		l.s.NotifySessReport(report.SessReport{SEID: uint64(si + 1), Reports: []report.Report{report.USAReport{URRID: 1}}})
		zzYield()
		zzAssert("C09.request.sent", zzSentCount() == before+1)
		if zzSentCount() != before+1 {
			return
		}
		b := zzSentBytes(before)
		h := zzParseHdr(b)
		zzAssert("C09.request.wellformed", h.ok && h.typ == 56 && h.s && h.seid == uint64(0x70+si))
		zzAssert("C09.request.to-owner", zzSentAddr(before).String() == zzAddr(si).String())
		out[i] = zzOut{peer: si, counter: c0 + uint32(i), wire: h.seq, b: b, sends: 1, live: true}
		zzAssert("C09.request.seq-follows-counter", h.seq == (c0+uint32(i))&0xffffff)
		for j := 0; j < i; j++ {
			zzAssert("C09.request.seq-distinct-from-outstanding", out[j].wire != h.seq)
		}
		zzAssert("C09.request.bookkeeping", len(l.s.txTrans) == i+1)
		if tx := zzFindTx(l.s, zzAddr(si), out[i].counter); tx != nil {
			out[i].id, out[i].hasID = tx.id, true
		}
	}
	for step := 0; step < depth; step++ {
		before := l.effects()
		ntx := len(l.s.txTrans)
		if nondetChoice("event", 2) == 0 {
			// retransmission timer of request a expires
			a := nondetChoice("which", nreq)
			o := &out[a]
			// the timer callback names the transaction by its id: peer address and counter value
			// ... and it can only expire if the code armed (or re-armed) it; for a retired request the
			// expiry models a callback that was already on its way when the transaction ended
			tx := zzFindTx(l.s, zzAddr(o.peer), o.counter)
			armed := tx != nil && tx.timer != nil
			if o.live {
				zzAssert("C09.retry.timer-armed", armed)
			}
			if armed {
				zzFireTimer(tx.timer) // the real timer; its callback names the transaction by its real id
				zzYield()
			} else if !o.live && o.hasID {
				l.s.NotifyTransTimeout(TX, o.id)
				zzYield()
			}
			after := l.effects()
			zzAssert("C09.expiry.no-state-effect", after.sessions == before.sessions && after.calls == before.calls)
			if !o.live {
				zzAssert("C09.expiry.retired-request-stays-silent", after.sent == before.sent && len(l.s.txTrans) == ntx)
				zzCover("C09.expiry.dead")
				continue
			}
			if o.sends-1 < maxr {
				zzAssert("C09.retry.one-datagram", after.sent == before.sent+1)
				if after.sent == before.sent+1 {
					zzAssert("C09.retry.byte-identical", zzSameBytes(zzSentBytes(before.sent), o.b))
					zzAssert("C09.retry.same-peer", zzSentAddr(before.sent).String() == zzAddr(o.peer).String())
				}
				zzAssert("C09.retry.still-outstanding", len(l.s.txTrans) == ntx)
				o.sends++
				zzCover("C09.retry")
			} else {
				zzAssert("C09.abandon.nothing-sent", after.sent == before.sent)
				zzAssert("C09.abandon.bookkeeping-released", len(l.s.txTrans) == ntx-1)
				o.live = false
				zzCover("C09.abandon")
			}
		} else {
			// a Session Report Response arrives from peer p with sequence q
			p := nondetChoice("rsp-peer", 3) // peer A, peer B, or another endpoint on A's host (never a peer)
			q := zzSeq24("rsp-seq")
			rsp := message.NewSessionReportResponse(0, 0, uint64(p&1+1), q, 0, ie.NewCause(ie.CauseRequestAccepted))
			l.feed(zzMarshal(rsp), zzAddr(p))
			after := l.effects()
			zzAssert("C09.response.no-state-effect", after.sessions == before.sessions && after.calls == before.calls && after.sent == before.sent)
			matched := -1
			for a := 0; a < nreq; a++ {
				if out[a].live && out[a].peer == p {
					if out[a].wire == q {
						matched = a
					}
				}
			}
			if matched >= 0 {
				zzAssert("C09.response.retires-request", len(l.s.txTrans) == ntx-1)
				out[matched].live = false
				zzCover("C09.response.matched")
			} else {
				zzAssert("C09.response.unmatched-ignored", len(l.s.txTrans) == ntx)
				zzCover("C09.response.unmatched")
			}
		}
	}
	zzCover("C09.done")
}


func ZZ_C09_Loop() { zzC09(3 + zzTier()) }

// Response and retransmission-timer expiry crossing each other. The timer of an outstanding request
// really fires (zzFireTimer: its callback queues the timeout event, and Stop then reports false),
// and a matching response arrives as well. The event loop's select may take the two in either order;
// to make both orders reproducible natively the harness plays the select itself and runs the two
// case bodies of PfcpServer.main in the order chosen by the solver (the bodies are: look the
// transaction up by its id, then TxTransaction.recv + rspDispacher, or TxTransaction.handleTimeout).
// Whatever the order, once the response has been handled the request is retired: no entry, no armed
// timer, and nothing is sent for it any more.
func zzC09Crossed() {
	w := zzNewWorld(zzFAR, false)
	s := w.s
	maxr := nondetChoice("maxretrans", 4)
	s.cfg.Pfcp.MaxRetrans = uint8(maxr)
	n := s.NewNode(zzNodeA, zzAddrA, w.dp)
	s.rnodes[zzNodeA] = n
	ss := n.NewSess(0x70)
	info := &URRInfo{}
	info.VOLUM = true
	ss.URRIDs[1] = info
	s.txSeq = nondetU32("txseq")
	s.ServeReport(&report.SessReport{SEID: ss.LocalID, Reports: []report.Report{report.USAReport{URRID: 1}}})
	zzAssert("C09.crossed.request-sent", zzSentCount() == 1 && len(s.txTrans) == 1)
	if zzSentCount() != 1 || len(s.txTrans) != 1 {
		return
	}
	h := zzParseHdr(zzSentBytes(0))
	var tx *TxTransaction
	for _, t := range s.txTrans {
		tx = t
	}
	// earlier expiries that were handled normally: k retransmissions
	k := nondetChoice("earlier-expiries", 2)
	for i := 0; i < k && i < maxr; i++ {
		f := zzFireTimer(tx.timer)
		zzAssert("C09.crossed.timer-armed", f)
		if !f {
			return
		}
		to := <-s.trToCh
		if t, ok := s.txTrans[to.TrID]; ok {
			t.handleTimeout()
		}
	}
	sentBefore := zzSentCount()
	// now the timer fires AND the response arrives
	fired := zzFireTimer(tx.timer)
	zzAssert("C09.crossed.timer-armed", fired)
	if !fired {
		return // without the expiry there is nothing to cross
	}
	rsp := message.NewSessionReportResponse(0, 0, ss.LocalID, h.seq, 0, ie.NewCause(ie.CauseRequestAccepted))
	handleRsp := func() {
		if t := zzFindTx(s, zzAddrA, rsp.Sequence()); t != nil {
			req := t.recv(rsp)
			_ = s.rspDispacher(rsp, zzAddrA, req)
		}
	}
	handleTo := func() {
		to := <-s.trToCh
		if t, ok := s.txTrans[to.TrID]; ok {
			t.handleTimeout()
		}
	}
	sentAtRsp := 0
	if nondetBool("response-first") {
		handleRsp()
		sentAtRsp = zzSentCount()
		handleTo()
		zzCover("C09.crossed.response-first")
	} else {
		handleTo()
		handleRsp()
		sentAtRsp = zzSentCount()
		zzCover("C09.crossed.timeout-first")
	}
	zzAssert("C09.crossed.retired", len(s.txTrans) == 0)
	zzAssert("C09.crossed.nothing-sent-after-the-response", zzSentCount() == sentAtRsp)
	zzAssert("C09.crossed.at-most-one-more-copy", zzSentCount() <= sentBefore+1)
	// a timer still armed for the retired request would fire into nothing - or, if the entry were
	// still there, retransmit an answered request
	for _, t := range s.txTrans {
		zzAssert("C09.crossed.no-armed-timer-left", !zzFireTimer(t.timer))
	}
	zzCover("C09.crossed.done")
}

func ZZ_C09_Crossed() { zzC09Crossed() }

// The first transmission of a request fails at the socket (the one failure the environment models
// and the native build reproduces: the UPF's socket is bound to a loop-back address and cannot send
// to 192.0.2.9). The
// request is outstanding all the same: its retransmission timer runs, it is retried the configured
// number of times and then abandoned and released - it must not stay registered for ever without a
// timer.
func zzC09FirstWriteFails() {
	w := zzNewWorld(zzFAR, false)
	s := w.s
	maxr := nondetChoice("maxretrans", 3)
	s.cfg.Pfcp.MaxRetrans = uint8(maxr)
	const bc = "192.0.2.9"
	bcAddr := &net.UDPAddr{IP: net.IPv4(192, 0, 2, 9), Port: 8805}
	n := s.NewNode(bc, bcAddr, w.dp)
	s.rnodes[bc] = n
	ss := n.NewSess(0x70)
	info := &URRInfo{}
	info.VOLUM = true
	ss.URRIDs[1] = info
	s.txSeq = nondetU32("txseq")
	c0 := s.txSeq
	s.ServeReport(&report.SessReport{SEID: ss.LocalID, Reports: []report.Report{report.USAReport{URRID: 1}}})
	zzAssert("C09.writefail.nothing-delivered", zzSentCount() == 0)
	zzAssert("C09.writefail.registered", len(s.txTrans) == 1)
	tx := zzFindTx(s, bcAddr, c0)
	zzAssert("C09.writefail.found", tx != nil)
	if tx == nil {
		return
	}
	for i := 0; i <= maxr; i++ {
		fired := zzFireTimer(tx.timer)
		zzAssert("C09.writefail.timer-armed", fired)
		if !fired {
			break // nothing will ever arrive on the timeout channel
		}
		to := <-s.trToCh
		if t, ok := s.txTrans[to.TrID]; ok {
			t.handleTimeout()
		}
		if i < maxr {
			zzAssert("C09.writefail.still-outstanding", len(s.txTrans) == 1)
		}
	}
	zzAssert("C09.writefail.abandoned-and-released", len(s.txTrans) == 0)
	zzCover("C09.writefail.done")
}

func ZZ_C09_FirstWriteFails() { zzC09FirstWriteFails() }
