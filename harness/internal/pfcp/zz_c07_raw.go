//go:build verif

package pfcp

import (
	"net"

	"github.com/free5gc/go-upf/internal/forwarder"
	"github.com/wmnsk/go-pfcp/ie"
)

// C07 part (a): the envelope. After a valid prefix (association, a bystander session, a session
// that is created and deleted again) ONE datagram of n fully symbolic bytes arrives from the
// associated peer or from an unknown peer and goes through the real receive path:
// rcvCh -> message.Parse (go-pfcp header, message and IE decoders) -> transactions -> dispatcher ->
// handlers -> driver. Afterwards a Heartbeat Request must be answered and the bystander session
// must be intact unless the datagram addressed it (Modification/Deletion with its SEID) or
// re-associated its node (Association Setup).
func zzC07Raw(gtp5g bool, handled bool, n int) {
	dg := nondetBytes("dgram", n)
	if handled {
		// message type fixed to one that go-upf dispatches (the rest of the datagram stays symbolic):
		// affords longer datagrams than the all-types entry
		zzAssume(dg[1] == zzHandled[nondetChoice("type", len(zzHandled))])
	}
	// the liveness probe comes from the other peer, so that its transaction key (address, sequence
	// number) cannot coincide with the datagram's and be taken for a retransmission of it
	var from, probe net.Addr = zzAddrA, zzAddrB
	src := "associated"
	if nondetBool("unknown-peer") {
		from, probe, src = zzAddrB, zzAddrA, "unknown"
	}
	drv := "empty"
	if gtp5g {
		drv = "gtp5g"
	}
	zzTag("raw peer=" + src + " driver=" + drv)
	lp := &zzLoop{zzWorld: zzNewWorld(zzFAR, false)}
	if gtp5g {
		lp.s.driver = forwarder.ZZNewGtp5g()
	} else {
		lp.s.driver = forwarder.Empty{}
	}
	zzTrack(lp.s)
	lp.s.Start(&lp.wg)
	zzYield()
	// prefix state: a fresh server (nothing associated, empty session table), or an association with
	// a bystander session and a second session that was created and deleted again
	fresh := handled && nondetBool("fresh-server")
	var by *Sess
	if !fresh {
		nid := ie.NewNodeID(zzNodeA, "", "")
		lp.feed(zzMarshal(zzAssocReq(1, zzNodeA)), zzAddrA)
		lp.feed(zzMarshal(zzEstReq(2, nid, ie.NewFSEID(0x70, []byte{127, 0, 0, 1}, nil), ie.NewCreateFAR(ie.NewFARID(9), ie.NewApplyAction(2)))), zzAddrA)
		lp.feed(zzMarshal(zzEstReq(3, nid, ie.NewFSEID(0x71, []byte{127, 0, 0, 1}, nil), ie.NewCreateFAR(ie.NewFARID(8), ie.NewApplyAction(2)))), zzAddrA)
		lp.feed(zzMarshal(zzDelReq(2, 4)), zzAddrA)
		zzAssert("C07.raw.prefix", zzSentCount() == 4)
		var err error
		by, err = lp.s.lnode.Sess(1)
		zzAssert("C07.raw.bystander", err == nil)
	}

	lp.feed(dg, from)
	if zzTier() == 1 && handled && n <= 14 && nondetBool("retransmitted") {
		// the same octets again: a retransmission of a (possibly malformed) request
		lp.feed(dg, from)
	}

	before := zzSentCount()
	lp.feed(zzMarshal(zzHbReq(0x777777)), probe)
	zzAssert("C07.raw.heartbeat-answered", zzSentCount() == before+1)
	if zzSentCount() == before+1 {
		h := zzParseHdr(zzSentBytes(before))
		zzAssert("C07.raw.heartbeat-response", h.ok && h.typ == 2 && h.seq == 0x777777)
	}
	addressed := false
	if n >= 2 && dg[1] == 5 {
		addressed = true
	}
	if n >= 16 && dg[0]&1 == 1 && (dg[1] == 52 || dg[1] == 54) {
		seid := uint64(0)
		for i := 4; i < 12; i++ {
			seid = seid<<8 | uint64(dg[i])
		}
		if seid == 1 {
			addressed = true
		}
	}
	if !addressed && !fresh {
		got, err := lp.s.lnode.Sess(1)
		zzAssert("C07.raw.bystander-intact", err == nil && got == by && len(by.FARIDs) == 1)
	}
	lp.stop()
	zzCover("C07.raw.done")
}

var zzHandled = []uint8{1, 5, 50, 52, 54, 57}

// all 256 message types, every length 0..12 (quick) / 0..16 (thorough)
func zzRawN() int          { return nondetChoice("n", 13+4*zzTier()) }
func ZZ_C07_RawAnyEmpty() { zzC07Raw(false, false, zzRawN()) }
func ZZ_C07_RawAnyGtp5g() { zzC07Raw(true, false, zzRawN()) }

// the six dispatched message types, every length 8..14 (quick) / 8..18 (thorough)
func zzRawHN() int             { return 8 + nondetChoice("n", 7+4*zzTier()) }
func ZZ_C07_RawHandledEmpty() { zzC07Raw(false, true, zzRawHN()) }
func ZZ_C07_RawHandledGtp5g() { zzC07Raw(true, true, zzRawHN()) }
