//go:build verif

package pfcp

import (
	"github.com/wmnsk/go-pfcp/ie"
	"github.com/wmnsk/go-pfcp/message"
)

// C04: every SEID resolves to exactly the live session it was issued for.
// One-step induction over the SEID table: arbitrary bounded pre-state satisfying
// the representation invariant, one operation with symbolic arguments,
// invariant + post-condition afterwards (DESIGN.md section 6 C04, Appendix F.2).

type zzShape struct {
	s     *PfcpServer
	dp    *zzDP
	nodes [2]*RemoteNode
	L     int
	live  [4]bool
	owner [4]int
	sess  [4]*Sess
	cp    [4]uint64
}

var zzPerms = [][]int{
	{0, 1, 2, 3}, {0, 1, 3, 2}, {0, 2, 1, 3}, {0, 2, 3, 1}, {0, 3, 1, 2}, {0, 3, 2, 1},
	{1, 0, 2, 3}, {1, 0, 3, 2}, {1, 2, 0, 3}, {1, 2, 3, 0}, {1, 3, 0, 2}, {1, 3, 2, 0},
	{2, 0, 1, 3}, {2, 0, 3, 1}, {2, 1, 0, 3}, {2, 1, 3, 0}, {2, 3, 0, 1}, {2, 3, 1, 0},
	{3, 0, 1, 2}, {3, 0, 2, 1}, {3, 1, 0, 2}, {3, 1, 2, 0}, {3, 2, 0, 1}, {3, 2, 1, 0},
}

func zzFact(n int) int {
	f := 1
	for i := 2; i <= n; i++ {
		f *= i
	}
	return f
}

// zzMkShape builds an arbitrary table of length <= maxL by case split.
func zzMkShape(maxL int, withRules bool) *zzShape {
	sh := &zzShape{}
	sh.dp = &zzDP{}
	sh.s = zzNewServer(sh.dp)
	sh.dp.ln = &sh.s.lnode
	for i := 0; i < 2; i++ {
		sh.nodes[i] = sh.s.NewNode(zzNodeID(i), zzAddr(i), sh.dp)
		sh.s.rnodes[zzNodeID(i)] = sh.nodes[i]
	}
	sh.L = nondetChoice("tablelen", maxL+1)
	ln := &sh.s.lnode
	ln.sess = make([]*Sess, sh.L)
	var nils []int
	for i := 0; i < sh.L; i++ {
		sh.live[i] = nondetChoice("live", 2) == 1
		if !sh.live[i] {
			nils = append(nils, i)
			continue
		}
		sh.owner[i] = nondetChoice("owner", 2)
		sh.cp[i] = nondetU64("cpseid")
		n := sh.nodes[sh.owner[i]]
		s := &Sess{
			rnode: n, LocalID: uint64(i + 1), RemoteID: sh.cp[i],
			PDRIDs: make(map[uint16]*PDRInfo), FARIDs: make(map[uint32]struct{}), QERIDs: make(map[uint32]struct{}),
			URRIDs: make(map[uint32]*URRInfo), BARIDs: make(map[uint8]struct{}), q: make(map[uint16]chan []byte), qlen: 2,
			log: n.log,
		}
		if withRules {
			s.FARIDs[uint32(i+1)] = struct{}{}
			sh.dp.rules = append(sh.dp.rules, zzRuleRec{uint64(i + 1), zzFAR, uint32(i + 1), zzPresent})
		}
		ln.sess[i] = s
		n.sess[uint64(i+1)] = struct{}{}
		sh.sess[i] = s
	}
	// free list: any permutation of the released ids
	k := len(nils)
	p := 0
	if k > 1 {
		p = nondetChoice("freeperm", zzFact(k))
	}
	// take the p-th permutation of k elements from the table of permutations of 4
	perm := zzKPerm(k, p)
	ln.free = make([]uint64, 0, k)
	for _, j := range perm {
		ln.free = append(ln.free, uint64(nils[j]+1))
	}
	return sh
}

// zzKPerm returns the p-th permutation of 0..k-1.
func zzKPerm(k, p int) []int {
	seen := 0
	for _, pm := range zzPerms {
		// permutations of 4 whose first k entries are a permutation of 0..k-1 and the rest ascending
		ok := true
		for i := 0; i < k; i++ {
			if pm[i] >= k {
				ok = false
			}
		}
		for i := k; i < 4; i++ {
			if pm[i] != i {
				ok = false
			}
		}
		if !ok {
			continue
		}
		if seen == p {
			return pm[:k]
		}
		seen++
	}
	return nil
}

func (sh *zzShape) isLive(x uint64) bool {
	for i := 0; i < sh.L; i++ {
		if sh.live[i] {
			if x == uint64(i+1) {
				return true
			}
		}
	}
	return false
}

// zzInv checks the representation invariant I1..I4 against the ghost.
func (sh *zzShape) zzInv(tag string) {
	ln := &sh.s.lnode
	// I1: slot i is nil or holds a session with LocalID i+1
	nilCount := 0
	for i, s := range ln.sess {
		if s == nil {
			nilCount++
			continue
		}
		zzAssert("C04.inv.I1."+tag, s.LocalID == uint64(i+1))
	}
	// I2: free is duplicate-free and equals the released ids
	zzAssert("C04.inv.I2.count."+tag, len(ln.free) == nilCount)
	for a, f := range ln.free {
		zzAssert("C04.inv.I2.range."+tag, f >= 1)
		zzAssert("C04.inv.I2.range2."+tag, f <= uint64(len(ln.sess)))
		if f >= 1 {
			if f <= uint64(len(ln.sess)) {
				zzAssert("C04.inv.I2.nil."+tag, ln.sess[f-1] == nil)
			}
		}
		for b := a + 1; b < len(ln.free); b++ {
			zzAssert("C04.inv.I2.dup."+tag, ln.free[b] != f)
		}
	}
	// I3/I4: each live SEID is in exactly its owner's set; sets hold only live SEIDs
	total := 0
	for _, n := range sh.nodes {
		total += len(n.sess)
		for id := range n.sess {
			zzAssert("C04.inv.I3.live."+tag, id >= 1)
			zzAssert("C04.inv.I3.live2."+tag, id <= uint64(len(ln.sess)))
			if id >= 1 {
				if id <= uint64(len(ln.sess)) {
					s := ln.sess[id-1]
					zzAssert("C04.inv.I3.nonnil."+tag, s != nil)
					if s != nil {
						zzAssert("C04.inv.I4."+tag, s.rnode == n)
					}
				}
			}
		}
	}
	zzAssert("C04.inv.I3.count."+tag, total == len(ln.sess)-nilCount)
}

// snapshot of table identity for "no side effect" checks
type zzSnap struct {
	sess []*Sess
	free []uint64
	n0   int
	n1   int
	dpn  int
}

func (sh *zzShape) snap() zzSnap {
	ln := &sh.s.lnode
	sn := zzSnap{n0: len(sh.nodes[0].sess), n1: len(sh.nodes[1].sess), dpn: len(sh.dp.calls)}
	sn.sess = append(sn.sess, ln.sess...)
	sn.free = append(sn.free, ln.free...)
	return sn
}

func (sh *zzShape) unchanged(tag string, sn zzSnap) {
	ln := &sh.s.lnode
	zzAssert("C04.nochange.len."+tag, len(ln.sess) == len(sn.sess))
	if len(ln.sess) == len(sn.sess) {
		for i := range sn.sess {
			zzAssert("C04.nochange.slot."+tag, ln.sess[i] == sn.sess[i])
		}
	}
	zzAssert("C04.nochange.freelen."+tag, len(ln.free) == len(sn.free))
	if len(ln.free) == len(sn.free) {
		for i := range sn.free {
			zzAssert("C04.nochange.free."+tag, ln.free[i] == sn.free[i])
		}
	}
	zzAssert("C04.nochange.node0."+tag, len(sh.nodes[0].sess) == sn.n0)
	zzAssert("C04.nochange.node1."+tag, len(sh.nodes[1].sess) == sn.n1)
	zzAssert("C04.nochange.dp."+tag, len(sh.dp.calls) == sn.dpn)
}

func zzC04Lookup(maxL int) {
	sh := zzMkShape(maxL, false)
	sh.zzInv("pre")
	x := nondetU64("seid")
	sn := sh.snap()
	s, err := sh.s.lnode.Sess(x)
	live := sh.isLive(x)
	zzAssert("C04.lookup.found-iff-live", (err == nil) == live)
	if err == nil {
		zzAssert("C04.lookup.nonnil", s != nil)
		if s != nil {
			zzAssert("C04.lookup.right-session", s.LocalID == x)
			zzAssert("C04.lookup.identity", s == sh.sess[s.LocalID-1])
		}
	} else {
		zzAssert("C04.lookup.nil-on-error", s == nil)
	}
	sh.unchanged("lookup", sn)
	zzCover("C04.lookup.done")
}

func zzC04NodeLookup(maxL int) {
	sh := zzMkShape(maxL, false)
	x := nondetU64("seid")
	ni := nondetChoice("node", 2)
	sn := sh.snap()
	s, err := sh.nodes[ni].Sess(x)
	want := false
	for i := 0; i < sh.L; i++ {
		if sh.live[i] && sh.owner[i] == ni {
			if x == uint64(i+1) {
				want = true
			}
		}
	}
	zzAssert("C04.nodelookup.found-iff-owned", (err == nil) == want)
	if err == nil {
		zzAssert("C04.nodelookup.right-session", s != nil && s.LocalID == x)
	}
	sh.unchanged("nodelookup", sn)
	zzCover("C04.nodelookup.done")
}

func zzC04New(maxL int) {
	sh := zzMkShape(maxL, false)
	ni := nondetChoice("node", 2)
	cp := nondetU64("newcp")
	before := sh.snap()
	s := sh.nodes[ni].NewSess(cp)
	zzAssert("C04.new.nonnil", s != nil)
	if s == nil {
		return
	}
	id := s.LocalID
	zzObserve("newid", id)
	zzAssert("C04.new.nonzero", id != 0)
	zzAssert("C04.new.not-live-before", !sh.isLive(id))
	zzAssert("C04.new.remoteid", s.RemoteID == cp)
	// every previously live session is still where it was
	for i := 0; i < sh.L; i++ {
		if sh.live[i] {
			zzAssert("C04.new.others-kept", sh.s.lnode.sess[i] == before.sess[i])
		}
	}
	// the new id now resolves to the new session, through the table and through its node only
	got, err := sh.s.lnode.Sess(id)
	zzAssert("C04.new.resolves", err == nil && got == s)
	_, err = sh.nodes[ni].Sess(id)
	zzAssert("C04.new.node-resolves", err == nil)
	_, err = sh.nodes[1-ni].Sess(id)
	zzAssert("C04.new.other-node-does-not", err != nil)
	// ghost update, then invariant
	if int(id) <= 4 && id >= 1 {
		k := int(id) - 1
		if k >= sh.L {
			sh.L = k + 1
		}
		sh.live[k], sh.owner[k], sh.sess[k] = true, ni, s
	}
	sh.zzInv("post-new")
	zzCover("C04.new.done")
}

func zzC04Delete(maxL int, viaNode bool) {
	sh := zzMkShape(maxL, true)
	x := nondetU64("seid")
	ni := nondetChoice("node", 2)
	sn := sh.snap()
	wasLive := sh.isLive(x)
	owned := false
	for i := 0; i < sh.L; i++ {
		if sh.live[i] && sh.owner[i] == ni {
			if x == uint64(i+1) {
				owned = true
			}
		}
	}
	var acted bool
	if viaNode {
		sh.nodes[ni].DeleteSess(x)
		acted = owned
	} else {
		_, err := sh.s.lnode.DeleteSess(x)
		zzAssert("C04.delete.err-iff-not-live", (err == nil) == wasLive)
		acted = wasLive
	}
	if !acted {
		sh.unchanged("delete-miss", sn)
		zzCover("C04.delete.miss")
		return
	}
	// the session is gone, its rules were withdrawn while the slot was still occupied,
	// and every data-plane call carried its SEID
	_, err := sh.s.lnode.Sess(x)
	zzAssert("C04.delete.gone", err != nil)
	zzAssert("C04.delete.rules-withdrawn", sh.dp.rulesOf(x) == 0)
	for _, c := range sh.dp.calls[sn.dpn:] {
		zzAssert("C04.delete.call-seid", c.seid == x)
		zzAssert("C04.delete.before-release", c.slotLive)
	}
	zzAssert("C04.delete.some-call", len(sh.dp.calls) > sn.dpn)
	// others untouched
	for i := 0; i < sh.L; i++ {
		if sh.live[i] {
			if x != uint64(i+1) {
				zzAssert("C04.delete.others-kept", sh.s.lnode.sess[i] == sn.sess[i])
			}
		}
	}
	if viaNode {
		// ghost update and invariant (LocalNode.DeleteSess alone leaves the node set to its caller)
		for i := 0; i < sh.L; i++ {
			if x == uint64(i+1) {
				sh.live[i] = false
			}
		}
		sh.zzInv("post-delete")
	}
	zzCover("C04.delete.hit")
}

func zzC04Reset(maxL int) {
	sh := zzMkShape(maxL, true)
	ni := nondetChoice("node", 2)
	sn := sh.snap()
	sh.nodes[ni].Reset()
	for i := 0; i < sh.L; i++ {
		if !sh.live[i] {
			continue
		}
		if sh.owner[i] == ni {
			zzAssert("C04.reset.removed", sh.s.lnode.sess[i] == nil)
			zzAssert("C04.reset.rules-withdrawn", sh.dp.rulesOf(uint64(i+1)) == 0)
			sh.live[i] = false
		} else {
			zzAssert("C04.reset.others-kept", sh.s.lnode.sess[i] == sn.sess[i])
			zzAssert("C04.reset.others-rules", sh.dp.rulesOf(uint64(i+1)) == 1)
		}
	}
	sh.zzInv("post-reset")
	zzCover("C04.reset.done")
}

func zzC04RemoteSess(maxL int) {
	sh := zzMkShape(maxL, false)
	r := nondetU64("rseid")
	ai := nondetChoice("addr", 2)
	sn := sh.snap()
	s, err := sh.s.lnode.RemoteSess(r, zzAddr(ai))
	want := false
	for i := 0; i < sh.L; i++ {
		if sh.live[i] && sh.owner[i] == ai {
			if sh.cp[i] == r {
				want = true
			}
		}
	}
	zzAssert("C04.remotesess.found-iff-match", (err == nil) == want)
	if err == nil {
		zzAssert("C04.remotesess.nonnil", s != nil)
		if s != nil {
			zzAssert("C04.remotesess.cp", s.RemoteID == r)
			zzAssert("C04.remotesess.node", s.rnode == sh.nodes[ai])
		}
	}
	sh.unchanged("remotesess", sn)
	zzCover("C04.remotesess.done")
}

// ---- through the handlers (the places a SEID from outside is resolved) ----

func zzC04ModifyHeader(maxL int) {
	sh := zzMkShape(maxL, true)
	x := nondetU64("seid")
	seq := nondetU32("seq") & 0xffffff
	sn := sh.snap()
	req := zzModReq(x, seq)
	zzDeliver(sh.s, req, zzAddrA, seq)
	live := sh.isLive(x)
	zzAssert("C04.mod.one-response", zzSentCount() == 1)
	if zzSentCount() != 1 {
		return
	}
	b := zzSentBytes(0)
	h := zzParseHdr(b)
	zzAssert("C04.mod.rsp-type", h.ok && h.typ == 53)
	cause := zzFindCause(b, h)
	if live {
		zzAssert("C04.mod.accepted", cause == ie.CauseRequestAccepted)
		zzAssert("C04.mod.rsp-seid", h.seid == sh.cp[x-1])
	} else {
		zzAssert("C04.mod.notfound-cause", cause == ie.CauseSessionContextNotFound)
		zzAssert("C04.mod.notfound-seid0", h.seid == 0)
	}
	sh.unchanged("mod", sn)
	zzCover("C04.mod.done")
}

func zzC04DeleteHeader(maxL int) {
	sh := zzMkShape(maxL, true)
	x := nondetU64("seid")
	seq := nondetU32("seq") & 0xffffff
	sn := sh.snap()
	req := zzDelReq(x, seq)
	zzDeliver(sh.s, req, zzAddrA, seq)
	live := sh.isLive(x)
	zzAssert("C04.del.one-response", zzSentCount() == 1)
	if zzSentCount() != 1 {
		return
	}
	b := zzSentBytes(0)
	h := zzParseHdr(b)
	zzAssert("C04.del.rsp-type", h.ok && h.typ == 55)
	cause := zzFindCause(b, h)
	if live {
		zzAssert("C04.del.accepted", cause == ie.CauseRequestAccepted)
		zzAssert("C04.del.rsp-seid", h.seid == sh.cp[x-1])
		_, err := sh.s.lnode.Sess(x)
		zzAssert("C04.del.gone", err != nil)
		zzAssert("C04.del.rules-withdrawn", sh.dp.rulesOf(x) == 0)
		for i := 0; i < sh.L; i++ {
			if x == uint64(i+1) {
				sh.live[i] = false
			}
		}
		sh.zzInv("post-del")
	} else {
		zzAssert("C04.del.notfound-cause", cause == ie.CauseSessionContextNotFound)
		zzAssert("C04.del.notfound-seid0", h.seid == 0)
		sh.unchanged("del", sn)
	}
	zzCover("C04.del.done")
}

// Session Report Response with SEID 0: "the peer has no such session" - the session the answered
// report was sent for (CP SEID of the request header, peer address) is removed, completely, and
// nothing else changes. The representation invariant must hold afterwards (a released SEID must
// not stay in its former owner's set: it will be re-issued).
func zzC04ReportRspZero(maxL int) {
	sh := zzMkShape(maxL, true)
	sh.zzInv("pre")
	r := nondetU64("rseid")
	ai := nondetChoice("addr", 2)
	sn := sh.snap()
	req := message.NewSessionReportRequest(0, 0, r, 0, 0, ie.NewReportType(0, 0, 1, 0))
	rsp := message.NewSessionReportResponse(0, 0, 0, 0, 0, ie.NewCause(ie.CauseSessionContextNotFound))
	// ghost: which live sessions match (CP SEID, peer)
	var cand [4]bool
	ncand := 0
	for i := 0; i < sh.L; i++ {
		if sh.live[i] && sh.owner[i] == ai {
			if sh.cp[i] == r {
				cand[i] = true
				ncand++
			}
		}
	}
	sh.s.handleSessionReportResponse(rsp, zzAddr(ai), req)
	if ncand == 0 {
		sh.unchanged("reportrsp0-miss", sn)
		zzCover("C04.reportrsp0.miss")
		return
	}
	// exactly one matching session is gone; every other session is where it was
	gone := 0
	for i := 0; i < sh.L; i++ {
		if !sh.live[i] {
			continue
		}
		if sh.s.lnode.sess[i] == nil {
			gone++
			zzAssert("C04.reportrsp0.removed-session-matches", cand[i])
			zzAssert("C04.reportrsp0.rules-withdrawn", sh.dp.rulesOf(uint64(i+1)) == 0)
			sh.live[i] = false
		} else {
			zzAssert("C04.reportrsp0.others-kept", sh.s.lnode.sess[i] == sn.sess[i])
		}
	}
	zzAssert("C04.reportrsp0.exactly-one-removed", gone == 1)
	for _, c := range sh.dp.calls[sn.dpn:] {
		zzAssert("C04.reportrsp0.before-release", c.slotLive)
	}
	sh.zzInv("post-reportrsp0")
	// the released SEID is what the next establishment gets; it must belong to the new owner only
	nn := sh.nodes[1-ai].NewSess(nondetU64("newcp"))
	if nn != nil {
		_, e1 := sh.nodes[1-ai].Sess(nn.LocalID)
		_, e2 := sh.nodes[ai].Sess(nn.LocalID)
		zzAssert("C04.reportrsp0.reissued-to-new-owner-only", e1 == nil && e2 != nil)
	}
	zzCover("C04.reportrsp0.hit")
}

func ZZ_C04_ReportRspZero() { zzC04ReportRspZero(zzMaxL()) }

// A control-plane node may come back from another transport address (restarted on another host or
// port) and set the association up again under the same Node ID. Sessions it establishes afterwards
// belong to the node at its CURRENT address: a SEID-0 report response from there releases the session
// it names by control-plane SEID, one from the earlier address (where somebody else may live now)
// resolves to nothing and leaves everything as it is.
func zzC04ReassocMoved() {
	dp := &zzDP{}
	s := zzNewServer(dp)
	dp.ln = &s.lnode
	first := nondetChoice("first-address", 3)
	second := nondetChoice("second-address", 3)
	zzDeliver(s, zzAssocReq(1, zzNodeA), zzAddr(first), 1)
	if nondetBool("session-before") {
		zzDeliver(s, zzEstReq(2, ie.NewNodeID(zzNodeA, "", ""), ie.NewFSEID(0x60, []byte{127, 0, 0, 1}, nil),
			ie.NewCreateFAR(ie.NewFARID(1), ie.NewApplyAction(2))), zzAddr(first), 2)
	}
	zzDeliver(s, zzAssocReq(3, zzNodeA), zzAddr(second), 3)
	r := nondetU64("cpseid")
	zzDeliver(s, zzEstReq(4, ie.NewNodeID(zzNodeA, "", ""), ie.NewFSEID(r, []byte{127, 0, 0, 1}, nil),
		ie.NewCreateFAR(ie.NewFARID(1), ie.NewApplyAction(2))), zzAddr(second), 4)
	sess, err := s.lnode.Sess(1)
	zzAssert("C04.moved.established", err == nil && sess != nil && sess.RemoteID == r)
	if err != nil || sess == nil {
		return
	}
	from := second
	if nondetBool("response-from-the-earlier-address") {
		from = first
	}
	req := message.NewSessionReportRequest(0, 0, r, 0, 0, ie.NewReportType(0, 0, 1, 0))
	rsp := message.NewSessionReportResponse(0, 0, 0, 0, 0, ie.NewCause(ie.CauseSessionContextNotFound))
	s.handleSessionReportResponse(rsp, zzAddr(from), req)
	got, err2 := s.lnode.Sess(1)
	if zzAddr(from).String() == zzAddr(second).String() {
		zzAssert("C04.moved.released-from-current-address", err2 != nil)
		zzAssert("C04.moved.rules-withdrawn", dp.rulesOf(1) == 0)
		zzCover("C04.moved.released")
	} else {
		zzAssert("C04.moved.kept-for-earlier-address", err2 == nil && got == sess)
		zzAssert("C04.moved.rules-kept", dp.rulesOf(1) == 1)
		zzCover("C04.moved.kept")
	}
}

func ZZ_C04_ReassocMoved() { zzC04ReassocMoved() }
func ZZ_C04_Lookup()        { zzC04Lookup(zzMaxL()) }
func ZZ_C04_NodeLookup()    { zzC04NodeLookup(zzMaxL()) }
func ZZ_C04_New()           { zzC04New(zzMaxL()) }
func ZZ_C04_DeleteNode()    { zzC04Delete(zzMaxL(), true) }
func ZZ_C04_DeleteLocal()   { zzC04Delete(zzMaxL(), false) }
func ZZ_C04_Reset()         { zzC04Reset(zzMaxL()) }
func ZZ_C04_RemoteSess()    { zzC04RemoteSess(zzMaxL()) }
func ZZ_C04_ModifyHeader()  { zzC04ModifyHeader(zzMaxL()) }
func ZZ_C04_DeleteHeader()  { zzC04DeleteHeader(zzMaxL()) }
