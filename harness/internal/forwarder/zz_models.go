//go:build verif

package forwarder

import (
	"errors"
	"net"
)

// Go-source models substituted (in the engine only) for net.ParseCIDR / net.ParseIP when the
// argument is symbolic; the native replay links the real functions, so every solver witness
// differential-tests the model. Contract modelled: IPv4 dotted quad, each field 1-3 digits,
// 0..255, no leading zero; prefix length 1-3 digits 0..32. Anything else -> error / nil
// (IPv6 text is outside the templates).

var errZZParse = errors.New("zz model: invalid address")

// zzParseQuad parses s[from:to] as a dotted quad.
func zzParseQuad(s string) ([4]byte, bool) {
	var out [4]byte
	field := 0
	val := 0
	nd := 0
	for i := 0; i < len(s); i++ {
		c := s[i]
		if c == '.' {
			if nd == 0 || field == 3 {
				return out, false
			}
			out[field] = byte(val)
			field++
			val, nd = 0, 0
			continue
		}
		if c < '0' || c > '9' {
			return out, false
		}
		if nd == 1 && val == 0 {
			return out, false // leading zero
		}
		val = val*10 + int(c-'0')
		nd++
		if nd > 3 || val > 255 {
			return out, false
		}
	}
	if field != 3 || nd == 0 {
		return out, false
	}
	out[3] = byte(val)
	return out, true
}

func zzModelParseIP(s string) net.IP {
	q, ok := zzParseQuad(s)
	if !ok {
		return nil
	}
	return net.IPv4(q[0], q[1], q[2], q[3])
}

func zzModelParseCIDR(s string) (net.IP, *net.IPNet, error) {
	slash := -1
	for i := 0; i < len(s); i++ {
		if s[i] == '/' {
			slash = i
			break
		}
	}
	if slash < 0 {
		return nil, nil, errZZParse
	}
	q, ok := zzParseQuad(s[:slash])
	if !ok {
		return nil, nil, errZZParse
	}
	m := s[slash+1:]
	if len(m) == 0 || len(m) > 3 {
		return nil, nil, errZZParse
	}
	n := 0
	for i := 0; i < len(m); i++ {
		c := m[i]
		if c < '0' || c > '9' {
			return nil, nil, errZZParse
		}
		n = n*10 + int(c-'0')
	}
	if n > 32 {
		return nil, nil, errZZParse
	}
	ip := net.IPv4(q[0], q[1], q[2], q[3])
	mask := net.CIDRMask(n, 32)
	return ip, &net.IPNet{IP: ip.Mask(mask), Mask: mask}, nil
}
