//go:build verif

package pfcp

import (
	"fmt"
	"github.com/wmnsk/go-pfcp/ie"
	"github.com/wmnsk/go-pfcp/message"

	"github.com/free5gc/go-upf/internal/report"
)

// C09: UPF-initiated requests are retried, matched and retired correctly.
// Ghost (DESIGN.md Appendix F.5): Out : (peer, wire seq) -> (request bytes, sends).

type zzOut struct {
	peer    int
	counter uint32 // value of the 32-bit transmit counter when the request was created
	wire    uint32 // the three sequence octets actually on the wire
	b       []byte
	sends   int
	live    bool
}

func zzC09(depth int) {
	l := zzStartLoop(false)
	maxr := nondetChoice("maxretrans", 4)
	l.s.cfg.Pfcp.MaxRetrans = uint8(maxr)
	// two sessions, one per peer, each with URR 1
	for k := 0; k < 2; k++ {
		n := l.s.NewNode(zzNodeID(k), zzAddr(k), l.dp)
		l.s.rnodes[zzNodeID(k)] = n
		ss := n.NewSess(uint64(0x70 + k))
		info := &URRInfo{}
		info.VOLUM = true
		ss.URRIDs[1] = info
	}
	c0 := nondetU32("txseq")
	// the counter is 32 bits wide and only ever incremented: any value, incl. both sides of 2^24 and of 2^32
	l.s.txSeq = c0
	nreq := 1 + nondetChoice("nreq", 2)
	var out [2]zzOut
	for i := 0; i < nreq; i++ {
		si := nondetChoice("report-session", 2)
		before := zzSentCount()
		l.s.NotifySessReport(report.SessReport{SEID: uint64(si + 1), Reports: []report.Report{report.USAReport{URRID: 1}}})
		zzYield()
		zzAssert("C09.request.sent", zzSentCount() == before+1)
		if zzSentCount() != before+1 {
			return
		}
		b := zzSentBytes(before)
		h := zzParseHdr(b)
		zzAssert("C09.request.wellformed", h.ok && h.typ == 56 && h.s && h.seid == uint64(0x70+si))
		zzAssert("C09.request.to-owner", zzSentAddr(before).String() == zzAddr(si).String())
		out[i] = zzOut{peer: si, counter: c0 + uint32(i), wire: h.seq, b: b, sends: 1, live: true}
		zzAssert("C09.request.seq-follows-counter", h.seq == (c0+uint32(i))&0xffffff)
		for j := 0; j < i; j++ {
			zzAssert("C09.request.seq-distinct-from-outstanding", out[j].wire != h.seq)
		}
		zzAssert("C09.request.bookkeeping", len(l.s.txTrans) == i+1)
	}
	for step := 0; step < depth; step++ {
		before := l.effects()
		ntx := len(l.s.txTrans)
		if nondetChoice("event", 2) == 0 {
			// retransmission timer of request a expires
			a := nondetChoice("which", nreq)
			o := &out[a]
			// the timer callback names the transaction by its id: peer address and counter value
			// ... and it can only expire if the code armed (or re-armed) it; for a retired request the
			// expiry models a callback that was already on its way when the transaction ended
			tx, ok := l.s.txTrans[fmt.Sprintf("%s-%d", zzAddr(o.peer), l.s.txKeySeq(o.counter))]
			armed := ok && tx.timer != nil
			if o.live {
				zzAssert("C09.retry.timer-armed", armed)
			}
			if armed || !o.live {
				l.expire(TX, zzAddr(o.peer), l.s.txKeySeq(o.counter))
			}
			after := l.effects()
			zzAssert("C09.expiry.no-state-effect", after.sessions == before.sessions && after.calls == before.calls)
			if !o.live {
				zzAssert("C09.expiry.retired-request-stays-silent", after.sent == before.sent && len(l.s.txTrans) == ntx)
				zzCover("C09.expiry.dead")
				continue
			}
			if o.sends-1 < maxr {
				zzAssert("C09.retry.one-datagram", after.sent == before.sent+1)
				if after.sent == before.sent+1 {
					zzAssert("C09.retry.byte-identical", zzSameBytes(zzSentBytes(before.sent), o.b))
					zzAssert("C09.retry.same-peer", zzSentAddr(before.sent).String() == zzAddr(o.peer).String())
				}
				zzAssert("C09.retry.still-outstanding", len(l.s.txTrans) == ntx)
				o.sends++
				zzCover("C09.retry")
			} else {
				zzAssert("C09.abandon.nothing-sent", after.sent == before.sent)
				zzAssert("C09.abandon.bookkeeping-released", len(l.s.txTrans) == ntx-1)
				o.live = false
				zzCover("C09.abandon")
			}
		} else {
			// a Session Report Response arrives from peer p with sequence q
			p := nondetChoice("rsp-peer", 2)
			q := zzSeq24("rsp-seq")
			rsp := message.NewSessionReportResponse(0, 0, uint64(p+1), q, 0, ie.NewCause(ie.CauseRequestAccepted))
			l.feed(zzMarshal(rsp), zzAddr(p))
			after := l.effects()
			zzAssert("C09.response.no-state-effect", after.sessions == before.sessions && after.calls == before.calls && after.sent == before.sent)
			matched := -1
			for a := 0; a < nreq; a++ {
				if out[a].live && out[a].peer == p {
					if out[a].wire == q {
						matched = a
					}
				}
			}
			if matched >= 0 {
				zzAssert("C09.response.retires-request", len(l.s.txTrans) == ntx-1)
				out[matched].live = false
				zzCover("C09.response.matched")
			} else {
				zzAssert("C09.response.unmatched-ignored", len(l.s.txTrans) == ntx)
				zzCover("C09.response.unmatched")
			}
		}
	}
	zzCover("C09.done")
}

// txKeySeq: the sequence value the transaction id is built from (the counter value the
// transaction was created with). Kept separate so that the oracle does not depend on
// how the implementation reduces the counter.
func (s *PfcpServer) txKeySeq(counter uint32) uint32 {
	for _, tx := range s.txTrans {
		if tx.seq&0xffffff == counter&0xffffff {
			return tx.seq
		}
	}
	return counter
}

func ZZ_C09_Loop() { zzC09(3 + zzTier()) }
