//go:build verif

package forwarder

import (
	"syscall"
	"io"
	"net"
	"runtime"
	"time"

	"github.com/khirono/go-nl"

	"github.com/free5gc/go-upf/internal/forwarder/perio"
	"github.com/free5gc/go-upf/internal/logger"
)

func init() {
	logger.Log.SetOutput(io.Discard)
	zzResetHook = func() {
		zzPS = nil
		zzK = nil
		nl.DoHook = nil
		if zzGTP != nil {
			zzGTPDrain()
		}
		zzGTPLog = nil
	}
}

func zzYield() { runtime.Gosched(); time.Sleep(3 * time.Millisecond) }

// GTP-U side: the link socket is 127.0.0.3:2152, the peers are sinks on 127.0.0.1/2:2152
type zzDatagram struct {
	b  []byte
	to net.Addr
}

var (
	zzGTP     *net.UDPConn
	zzGTPSink []*net.UDPConn
	zzGTPLog  []zzDatagram
)

func zzGTPConn() *net.UDPConn {
	if zzGTP == nil {
		for _, a := range []string{"127.0.0.1:2152", "127.0.0.2:2152"} {
			ua, _ := net.ResolveUDPAddr("udp4", a)
			c, err := net.ListenUDP("udp4", ua)
			if err != nil {
				panic("zz native env: " + err.Error())
			}
			zzGTPSink = append(zzGTPSink, c)
		}
		ua, _ := net.ResolveUDPAddr("udp4", "127.0.0.3:2152")
		c, err := net.ListenUDP("udp4", ua)
		if err != nil {
			panic("zz native env: " + err.Error())
		}
		zzGTP = c
	}
	return zzGTP
}

func zzGTPDrain() {
	buf := make([]byte, 65536)
	for _, c := range zzGTPSink {
		rc, err := c.SyscallConn()
		if err != nil {
			continue
		}
		for {
			// non-blocking: what the socket holds now (a short read deadline can expire before the read
			// starts on a loaded machine and hide a datagram that is already there)
			n := -1
			rc.Read(func(fd uintptr) bool {
				k, _, e := syscall.Recvfrom(int(fd), buf, syscall.MSG_DONTWAIT)
				if e == nil {
					n = k
				}
				return true
			})
			if n < 0 {
				break
			}
			b := make([]byte, n)
			copy(b, buf[:n])
			zzGTPLog = append(zzGTPLog, zzDatagram{b, c.LocalAddr()})
		}
	}
}

func zzSentCountOn(c *net.UDPConn) int           { zzGTPDrain(); return len(zzGTPLog) }
func zzSentBytesOn(c *net.UDPConn, i int) []byte { zzGTPDrain(); return zzGTPLog[i].b }
func zzSentAddrOn(c *net.UDPConn, i int) net.Addr { zzGTPDrain(); return zzGTPLog[i].to }

func zzPerio() *perio.Server {
	if zzPS == nil {
		zzPS = perio.ZZNewServer()
	}
	return zzPS
}
