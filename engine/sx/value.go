package sx

import (
	"fmt"
	"go/types"
	"strings"
	"unsafe"

	"golang.org/x/tools/go/ssa"

	"gosymx/term"
)

// value is the boxed representation of every interpreted value:
//
//	bool | *term.Term (Bool)            booleans
//	uint64 | *term.Term (BV w)          all integer types (bits masked to the type's width)
//	float64                             floats (concrete only)
//	string | *sstr | *tstr              strings (concrete / symbolic bytes / injective tuple)
//	*value | *viewPtr | uptr            pointers
//	[]value                             slices
//	array, structure                    aggregates (inline, copied on load/store)
//	iface                               interfaces
//	*mapObj, *chanObj                   maps, channels
//	*ssa.Function, *closure, *ssa.Builtin  functions
//	tuple                               multi-results
//	opaque                              native objects the engine does not look into
type value interface{}

type tuple []value
type array []value
type structure []value

type iface struct {
	t types.Type
	v value
}

type closure struct {
	Fn  *ssa.Function
	Env []value
}

// uptr is an unsafe.Pointer (or a pointer obtained from one that the engine
// cannot give a typed meaning to).
type uptr struct {
	p   value      // the original typed pointer (or nil)
	elt types.Type // element type of the original pointer
}

// viewPtr is a *uintN obtained by unsafe conversion from a pointer into a byte
// array: little-endian view over n consecutive byte cells.
type viewPtr struct {
	base *value
	n    int // bytes
}

// symElem is a pointer to cells[idx] with a symbolic (already bounds-checked) index
// over scalar cells: loads become ite chains, stores concretize the index.
type symElem struct {
	cells []value
	idx   *term.Term
	w     int // element width (0 = bool)
}

// opaque is a native object: the engine only passes it around.
type opaque struct {
	tag string
	v   interface{}
}

// sstr is a string with at least one symbolic byte. Immutable.
type sstr struct {
	b []value // each uint64 (<256) or *term.Term of width 8
}

// tstr is an injective formatted string: equal iff same format and equal args.
type tstr struct {
	format string
	args   []value // strings (concrete) or integers (uint64 / *term.Term)
	widths []int
}

type bad struct{}

const valueSize = unsafe.Sizeof(value(nil))

func cellAt(base *value, i int) *value {
	return (*value)(unsafe.Add(unsafe.Pointer(base), uintptr(i)*valueSize))
}

// ---- type helpers ----

func deref(t types.Type) types.Type {
	if p, ok := t.Underlying().(*types.Pointer); ok {
		return p.Elem()
	}
	panic(fmt.Sprintf("deref of non-pointer %v", t))
}

// intInfo returns width and signedness for integer types.
func intInfo(t types.Type) (w int, signed bool, ok bool) {
	b, isb := t.Underlying().(*types.Basic)
	if !isb {
		return 0, false, false
	}
	switch b.Kind() {
	case types.Int, types.Int64, types.UntypedInt, types.UntypedRune:
		return 64, true, true
	case types.Int8:
		return 8, true, true
	case types.Int16:
		return 16, true, true
	case types.Int32:
		return 32, true, true
	case types.Uint, types.Uint64, types.Uintptr:
		return 64, false, true
	case types.Uint8:
		return 8, false, true
	case types.Uint16:
		return 16, false, true
	case types.Uint32:
		return 32, false, true
	}
	return 0, false, false
}

func isFloat(t types.Type) bool {
	b, ok := t.Underlying().(*types.Basic)
	return ok && b.Info()&types.IsFloat != 0
}

func isString(t types.Type) bool {
	b, ok := t.Underlying().(*types.Basic)
	return ok && b.Info()&types.IsString != 0
}

func isBoolT(t types.Type) bool {
	b, ok := t.Underlying().(*types.Basic)
	return ok && b.Info()&types.IsBoolean != 0
}

func mask(w int) uint64 {
	if w >= 64 {
		return ^uint64(0)
	}
	return (uint64(1) << uint(w)) - 1
}

func sext(v uint64, w int) int64 {
	if w >= 64 {
		return int64(v)
	}
	sh := uint(64 - w)
	return int64(v<<sh) >> sh
}

// zero returns the zero value of t.
func zero(t types.Type) value {
	switch t := t.(type) {
	case *types.Basic:
		if t.Kind() == types.UntypedNil {
			panic("untyped nil has no zero value")
		}
		switch {
		case t.Info()&types.IsBoolean != 0:
			return false
		case t.Info()&types.IsInteger != 0:
			return uint64(0)
		case t.Info()&types.IsFloat != 0:
			return float64(0)
		case t.Info()&types.IsString != 0:
			return ""
		case t.Kind() == types.UnsafePointer:
			return uptr{}
		}
		panic(fmt.Sprintf("zero for unexpected basic type %v", t))
	case *types.Pointer:
		return (*value)(nil)
	case *types.Array:
		a := make(array, t.Len())
		for i := range a {
			a[i] = zero(t.Elem())
		}
		return a
	case *types.Named:
		return zero(t.Underlying())
	case *types.Alias:
		return zero(types.Unalias(t))
	case *types.Interface:
		return iface{}
	case *types.Slice:
		return []value(nil)
	case *types.Struct:
		s := make(structure, t.NumFields())
		for i := range s {
			s[i] = zero(t.Field(i).Type())
		}
		return s
	case *types.Tuple:
		if t.Len() == 1 {
			return zero(t.At(0).Type())
		}
		s := make(tuple, t.Len())
		for i := range s {
			s[i] = zero(t.At(i).Type())
		}
		return s
	case *types.Chan:
		return (*chanObj)(nil)
	case *types.Map:
		return (*mapObj)(nil)
	case *types.Signature:
		return (*ssa.Function)(nil)
	case *types.TypeParam:
		panic("zero of type parameter (generic function not instantiated)")
	}
	panic(fmt.Sprintf("zero: unexpected %T %v", t, t))
}

// copyVal returns an unaliased copy of aggregates.
func copyVal(v value) value {
	switch v := v.(type) {
	case structure:
		c := make(structure, len(v))
		for i := range v {
			c[i] = copyVal(v[i])
		}
		return c
	case array:
		c := make(array, len(v))
		for i := range v {
			c[i] = copyVal(v[i])
		}
		return c
	}
	return v
}

// storeInto writes v into *addr keeping the aggregate's cell identity (so that
// interior pointers stay valid).
func storeInto(addr *value, v value) {
	switch rhs := v.(type) {
	case structure:
		lhs, ok := (*addr).(structure)
		if !ok || len(lhs) != len(rhs) {
			*addr = copyVal(v)
			return
		}
		for i := range lhs {
			storeInto(&lhs[i], rhs[i])
		}
	case array:
		lhs, ok := (*addr).(array)
		if !ok || len(lhs) != len(rhs) {
			*addr = copyVal(v)
			return
		}
		for i := range lhs {
			storeInto(&lhs[i], rhs[i])
		}
	default:
		*addr = v
	}
}

func isSym(v value) bool {
	_, ok := v.(*term.Term)
	return ok
}

// containsSym reports whether v (deeply, without following pointers) has symbolic parts.
func containsSym(v value) bool {
	switch v := v.(type) {
	case *term.Term:
		return true
	case *sstr, *tstr:
		return true
	case structure:
		for _, e := range v {
			if containsSym(e) {
				return true
			}
		}
	case array:
		for _, e := range v {
			if containsSym(e) {
				return true
			}
		}
	case iface:
		return containsSym(v.v)
	}
	return false
}

// ---- printing (diagnostics) ----

func (m *Machine) vstr(v value) string {
	var sb strings.Builder
	writeVal(&sb, v, 0)
	return sb.String()
}

func writeVal(sb *strings.Builder, v value, depth int) {
	if depth > 4 {
		sb.WriteString("...")
		return
	}
	switch v := v.(type) {
	case nil:
		sb.WriteString("<nil>")
	case bool, uint64, float64:
		fmt.Fprintf(sb, "%v", v)
	case string:
		fmt.Fprintf(sb, "%q", v)
	case *term.Term:
		s := v.String()
		if len(s) > 80 {
			s = s[:80] + "..."
		}
		sb.WriteString(s)
	case *sstr:
		sb.WriteString("sstr[")
		for i, b := range v.b {
			if i > 0 {
				sb.WriteByte(' ')
			}
			if c, ok := b.(uint64); ok {
				fmt.Fprintf(sb, "%q", rune(c))
			} else {
				sb.WriteString("?")
			}
		}
		sb.WriteString("]")
	case *tstr:
		fmt.Fprintf(sb, "tstr(%q", v.format)
		for _, a := range v.args {
			sb.WriteString(", ")
			writeVal(sb, a, depth+1)
		}
		sb.WriteString(")")
	case *value:
		if v == nil {
			sb.WriteString("nil-ptr")
		} else {
			fmt.Fprintf(sb, "&%p", v)
		}
	case []value:
		sb.WriteString("[")
		for i, e := range v {
			if i > 0 {
				sb.WriteString(" ")
			}
			if i > 16 {
				sb.WriteString("...")
				break
			}
			writeVal(sb, e, depth+1)
		}
		sb.WriteString("]")
	case array:
		writeVal(sb, []value(v), depth)
	case structure:
		sb.WriteString("{")
		for i, e := range v {
			if i > 0 {
				sb.WriteString(" ")
			}
			writeVal(sb, e, depth+1)
		}
		sb.WriteString("}")
	case tuple:
		sb.WriteString("(")
		for i, e := range v {
			if i > 0 {
				sb.WriteString(", ")
			}
			writeVal(sb, e, depth+1)
		}
		sb.WriteString(")")
	case iface:
		if v.t == nil {
			sb.WriteString("nil-iface")
		} else {
			fmt.Fprintf(sb, "(%s:", v.t)
			writeVal(sb, v.v, depth+1)
			sb.WriteString(")")
		}
	case *mapObj:
		if v == nil {
			sb.WriteString("nil-map")
		} else {
			fmt.Fprintf(sb, "map(len=%d)", v.length())
		}
	case *chanObj:
		fmt.Fprintf(sb, "chan%p", v)
	case *ssa.Function:
		if v == nil {
			sb.WriteString("nil-func")
		} else {
			sb.WriteString(v.String())
		}
	case *closure:
		sb.WriteString("closure:" + v.Fn.String())
	case opaque:
		fmt.Fprintf(sb, "opaque<%s>", v.tag)
	default:
		fmt.Fprintf(sb, "<%T>", v)
	}
}
