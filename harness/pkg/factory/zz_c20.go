//go:build verif

package factory

import (
	"errors"
	"time"

	"github.com/asaskevich/govalidator"
)

// C20, error propagation in ReadConfig: os.ReadFile, yaml.Unmarshal and
// govalidator.ValidateStruct are replaced (in the engine) by models with symbolic outcomes;
// any failing stage yields (nil, error), otherwise the unmarshalled values are returned unchanged.
// Which documents the YAML decoder and the validator accept is NOT decided here (DESIGN.md section 7).

var (
	zzFailRead, zzFailYaml, zzFailValidate bool
	zzNodeID                               string
	zzRetrans                              uint8
	errZZStage                             = errors.New("zz: stage failed")
)

func ZZ_C20_ReadConfig() {
	govalidator.TagMap = map[string]govalidator.Validator{}
	zzFailRead = nondetBool("read-fails")
	zzFailYaml = nondetBool("yaml-fails")
	zzFailValidate = nondetBool("validate-fails")
	resolvable := nondetChoice("nodeid", 2) == 1
	zzNodeID = "not-an-address.invalid"
	if resolvable {
		zzNodeID = "127.0.0.8"
	}
	zzRetrans = nondetU8("maxretrans")
	cfg, err := ReadConfig("cfg.yaml")
	ok := !zzFailRead && !zzFailYaml && !zzFailValidate && resolvable
	zzAssert("C20.readconfig.accepted-iff-every-stage-passes", (err == nil) == ok)
	zzAssert("C20.readconfig.no-partial-config", (cfg != nil) == ok)
	if ok && cfg != nil {
		zzAssert("C20.readconfig.values-unchanged", cfg.Version == "1.0.3" && cfg.Pfcp.NodeID == "127.0.0.8" && cfg.Pfcp.MaxRetrans == zzRetrans && cfg.Pfcp.RetransTimeout == 3*time.Second && cfg.Gtpu.Forwarder == "gtp5g")
		zzCover("C20.readconfig.accepted")
	} else {
		zzCover("C20.readconfig.rejected")
	}
}
