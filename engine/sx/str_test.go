package sx

import (
	"fmt"
	"math/rand"
	"strings"
	"testing"
)

// Tuple strings stand for ordinary strings. Whatever strEq / strConcat answer for tuples whose
// numbers happen to be concrete must agree with comparing the rendered strings; "unsupported" is
// always allowed, a wrong definite answer never.
func TestTupleStringsAgainstRendering(t *testing.T) {
	rng := rand.New(rand.NewSource(7))
	m := &Machine{}
	texts := []string{"", "a", "-", "10.0.0.1:8805", "10.0.0.1:88", "10.0.0.2:8805", "x1", "1", "#", "a-", "7z", "%"}
	verbs := []string{"%d", "%x", "%06x", "%03d"}
	nums := []uint64{0, 1, 5, 11, 12, 110, 255, 4096, 1 << 24, 1<<32 - 1}
	type built struct {
		v    value
		real string
	}
	mk := func() built {
		// a concatenation of 1..4 parts: plain text, or a formatted number
		var v value = ""
		real := ""
		n := 1 + rng.Intn(4)
		for i := 0; i < n; i++ {
			if rng.Intn(2) == 0 {
				s := texts[rng.Intn(len(texts))]
				v = m.strConcat(v, s)
				real += s
			} else {
				vb := verbs[rng.Intn(len(verbs))]
				x := nums[rng.Intn(len(nums))]
				v = m.strConcat(v, &tstr{format: "sym:" + vb, args: []value{x}})
				real += fmt.Sprintf(vb, x)
			}
		}
		return built{v, real}
	}
	decided, unsupported := 0, 0
	for i := 0; i < 400000; i++ {
		if i == 200000 {
			// second half: texts and numbers made of the same digit, so that shifted readings collide
			texts = []string{"", "1", "11", "-", "a"}
			verbs = []string{"%d", "%d", "%x"}
			nums = []uint64{1, 11, 111}
		}
		a, b := mk(), mk()
		if i%3 == 0 {
			// same shape, other numbers: the interesting case
			b = a
			if ta, ok := a.v.(*tstr); ok {
				nb := &tstr{format: ta.format, args: append([]value{}, ta.args...)}
				real := ""
				for j := range nb.args {
					if _, isN := nb.args[j].(uint64); isN && rng.Intn(2) == 0 {
						nb.args[j] = nums[rng.Intn(len(nums))]
					}
				}
				nat := make([]interface{}, len(nb.args))
				for j := range nb.args {
					nat[j] = nb.args[j]
				}
				real = fmt.Sprintf(strings.TrimPrefix(nb.format, "sym:"), nat...)
				b = built{nb, real}
			}
		}
		if i%2 == 1 {
			// tuple against the other one's rendered text (matchFormatted)
			b.v = b.real
		}
		var got value
		func() {
			defer func() {
				if r := recover(); r != nil {
					if _, ok := r.(pathAbort); !ok {
						panic(r)
					}
					got = nil
				}
			}()
			got = m.strEq(a.v, b.v)
		}()
		if got == nil {
			unsupported++
			continue
		}
		g, ok := got.(bool)
		if !ok {
			t.Fatalf("concrete tuples compared to a non-Boolean %T", got)
		}
		decided++
		if g != (a.real == b.real) {
			t.Fatalf("strEq(%v, %v) = %v but the strings are %q and %q", show(a.v), show(b.v), g, a.real, b.real)
		}
	}
	if decided < 1000 {
		t.Fatalf("only %d comparisons decided (%d unsupported): the test does not exercise the rules", decided, unsupported)
	}
	t.Logf("%d decided, %d unsupported", decided, unsupported)
}

func show(v value) string {
	if t, ok := v.(*tstr); ok {
		return fmt.Sprintf("tstr(%q %v)", t.format, t.args)
	}
	return fmt.Sprintf("%q", v)
}
