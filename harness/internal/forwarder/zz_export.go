//go:build verif

package forwarder

import (
	"github.com/khirono/go-nl"

	"github.com/free5gc/go-gtp5gnl"
)

// ZZNewGtp5g gives harnesses of other packages a gtp5g driver on a simulated kernel that
// accepts every rule operation (GET_FAR answers "no such FAR", so no buffer release happens).
func ZZNewGtp5g() *Gtp5g {
	k := zzInstallKernel()
	k.reply = func(k *zzKernel, r zzReq) ([]nl.Msg, error) {
		if len(r.b) > 0 {
			switch r.b[0] {
			case gtp5gnl.CMD_GET_FAR, gtp5gnl.CMD_GET_PDR, gtp5gnl.CMD_GET_QER:
				return nil, errZZNoEnt
			case gtp5gnl.CMD_DEL_URR, gtp5gnl.CMD_GET_REPORT:
				return zzReportsMsg([]zzRep{{urr: 1}}), nil
			}
		}
		return nil, nil
	}
	zzPS = nil // a fresh periodic-report server per driver object
	return zzGtp5g(7)
}

// ZZPerioNonPositive drains the registrations the driver has queued for the periodic-report server
// and counts those without a positive period. The server hands the period to time.NewTicker, which
// panics on a non-positive one - in the server's own goroutine, where nothing recovers: the process
// ends. (The harness server does not run that goroutine; this is the link it checks instead.)
func ZZPerioNonPositive() int {
	n := 0
	for _, e := range zzPerio().ZZDrain() {
		if e.Type == 1 && e.Period <= 0 {
			n++
		}
	}
	return n
}

// ZZRequests is the number of netlink requests the simulated kernel has seen.
func ZZRequests() int {
	if zzK == nil {
		return 0
	}
	return len(zzK.reqs)
}
