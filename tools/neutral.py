#!/usr/bin/env python3
"""neutral.py <id> <agent-worktree>: a behaviour-preserving refactoring produced by a sub-agent.
Stores it under /verif/neutral/<id>/, confirms that the existing suite passes with it (fresh scratch
worktree), then runs every quick check whose packages the patch touches against a scratch worktree
with the patch applied (VERIF_REPO; /repo itself is not touched). Any exit code other than 0 is
either a false alarm of the check or a refactoring that is not behaviour-preserving after all:
both need a human look, recorded in meta.json."""
import json, os, re, shutil, subprocess, sys, time
V = os.path.dirname(os.path.dirname(os.path.abspath(__file__)))
ENV = dict(os.environ, GOFLAGS="-mod=mod", GOPROXY="off", GOSUMDB="off", GOTOOLCHAIN="local", CGO_ENABLED="0")
SUITE = [["go", "build", "./..."],
         ["go", "test", "-vet=off", "-count=1", "./internal/pfcp/", "./internal/report/", "./internal/gtpv1/", "./internal/forwarder/perio/"],
         ["go", "test", "-vet=off", "-count=1", "./internal/forwarder/", "-run", "TestParseFlowDesc|Test_convertSlice"]]
BY_PKG = [("internal/pfcp/", "C01 C04 C05 C06 C07 C08 C09 C10 C11 C12 C13"),
          ("internal/forwarder/perio/", "C15 C03"),
          ("internal/forwarder/buffnetlink/", "C10 C13"),
          ("internal/forwarder/", "C02 C03 C07 C10 C13 C14 C15 C16 C20"),
          ("internal/report/", "C19 C10 C03 C11 C12"),
          ("internal/gtpv1/", "C14 C13"),
          ("pkg/factory/", "C20")]


def run(cmd, cwd, env=ENV, timeout=3600):
    p = subprocess.run(cmd, cwd=cwd, env=env, stdout=subprocess.PIPE, stderr=subprocess.STDOUT, text=True, timeout=timeout)
    return p.returncode, p.stdout


nid, awt = sys.argv[1], sys.argv[2]
patch = os.path.join(awt, "SEED", "patch.diff")
nd = os.path.join(V, "neutral", nid)
os.makedirs(nd, exist_ok=True)
shutil.copy(patch, os.path.join(nd, "patch.diff"))
if os.path.exists(os.path.join(awt, "SEED", "notes.md")):
    shutil.copy(os.path.join(awt, "SEED", "notes.md"), os.path.join(nd, "agent_notes.md"))
files = re.findall(r"^\+\+\+ b/(\S+)", open(patch).read(), re.M)
checks = []
for f in files:
    for pre, cs in BY_PKG:
        if f.startswith(pre):
            for c in cs.split():
                if c not in checks:
                    checks.append(c)
            break
wt = f"/tmp/neutralrun_{nid}"
subprocess.run(["git", "-C", "/repo", "worktree", "remove", "--force", wt], stdout=subprocess.DEVNULL, stderr=subprocess.DEVNULL)
rc, out = run(["git", "-C", "/repo", "worktree", "add", "-q", "--detach", wt, "HEAD"], "/repo")
assert rc == 0, out
meta = {"id": nid, "files": files, "checks": {}, "suite_passes": None}
try:
    rc, out = run(["git", "apply", patch], wt)
    assert rc == 0, out
    ok = True
    for c in SUITE:
        rc, out = run(c, wt)
        if rc != 0:
            rc, out = run(c, wt)
        if rc != 0:
            ok = False
            meta["suite_output"] = " ".join(c) + "\n" + out[-1200:]
            break
    meta["suite_passes"] = ok
    cenv = dict(os.environ, VERIF_REPO=wt)
    for c in sorted(checks):
        evf = os.path.join(V, "evidence", c + ".json")
        bak = open(evf).read() if os.path.exists(evf) else None
        t0 = time.time()
        p = subprocess.run([os.path.join(V, "check"), c, "quick"], cwd=V, env=cenv, stdout=subprocess.PIPE, stderr=subprocess.STDOUT, text=True, timeout=3600)
        lines = p.stdout.splitlines()
        meta["checks"][c] = {"exit": p.returncode, "wall_s": round(time.time() - t0, 1),
                             "alarms": [l[:400] for l in lines if l.startswith(("VIOLATION", "INCONCLUSIVE"))][:8],
                             "violation_keys": sorted({re.sub(r"^.*/replay/[^/]+/", "", l).replace(".json", "") for l in lines if l.startswith("VIOLATION")})}
        if bak is not None:
            open(evf, "w").write(bak)
finally:
    subprocess.run(["git", "-C", "/repo", "worktree", "remove", "--force", wt], stdout=subprocess.DEVNULL, stderr=subprocess.DEVNULL)
meta["silent"] = meta["suite_passes"] and all(r["exit"] == 0 for r in meta["checks"].values())
json.dump(meta, open(os.path.join(nd, "meta.json"), "w"), indent=1)
print(nid, "suite", meta["suite_passes"], "silent", meta["silent"], {c: (r["exit"], r["violation_keys"][:3] or r["alarms"][:1]) for c, r in meta["checks"].items() if r["exit"] != 0})
