//go:build verif

package pfcp

import (
	"github.com/wmnsk/go-pfcp/ie"
)

// C12: ending or detaching a URR returns its final usage exactly once.
// One-step induction on the PDR<->URR reference invariant (DESIGN.md 6/C12, Appendix F.3).

const (
	zzNP = 2 // PDR ids 1..2
	zzNU = 3 // URR ids 1..3
)

type zzRefState struct {
	s      *PfcpServer
	dp     *zzDP
	sess   *Sess
	pdr    [zzNP]bool
	urr    [zzNU]bool
	assoc  [zzNP][zzNU]bool
	nurr   int
	cpseid uint64
}

func (st *zzRefState) refs(u int) int {
	n := 0
	for p := 0; p < zzNP; p++ {
		if st.pdr[p] && st.assoc[p][u] {
			n++
		}
	}
	return n
}

// zzMkRef builds an arbitrary reference state over <= 2 PDRs and <= nurr URR ids that
// satisfies the invariant refPdrNum(u) == |{p : u in RelatedURRIDs(p)}|.
func zzMkRef(nurr int) *zzRefState {
	st := &zzRefState{nurr: nurr}
	st.dp = &zzDP{}
	st.s = zzNewServer(st.dp)
	st.dp.ln = &st.s.lnode
	n := st.s.NewNode(zzNodeA, zzAddrA, st.dp)
	st.s.rnodes[zzNodeA] = n
	st.cpseid = nondetU64("cpseid")
	sess := n.NewSess(st.cpseid)
	st.sess = sess
	for u := 0; u < nurr; u++ {
		st.urr[u] = nondetChoice("urr-exists", 2) == 1
	}
	for p := 0; p < zzNP; p++ {
		st.pdr[p] = nondetChoice("pdr-exists", 2) == 1
		if !st.pdr[p] {
			continue
		}
		for u := 0; u < nurr; u++ {
			st.assoc[p][u] = nondetChoice("assoc", 2) == 1
		}
	}
	for u := 0; u < nurr; u++ {
		if st.urr[u] {
			sess.URRIDs[uint32(u+1)] = &URRInfo{refPdrNum: uint16(st.refs(u))}
			sess.URRIDs[uint32(u+1)].VOLUM = true
			st.dp.rules = append(st.dp.rules, zzRuleRec{sess.LocalID, zzURR, uint32(u + 1), zzPresent})
		}
	}
	for p := 0; p < zzNP; p++ {
		if !st.pdr[p] {
			continue
		}
		info := &PDRInfo{RelatedURRIDs: make(map[uint32]struct{})}
		for u := 0; u < nurr; u++ {
			if st.assoc[p][u] {
				info.RelatedURRIDs[uint32(u+1)] = struct{}{}
			}
		}
		sess.PDRIDs[uint16(p+1)] = info
		st.dp.rules = append(st.dp.rules, zzRuleRec{sess.LocalID, zzPDR, uint32(p + 1), zzPresent})
	}
	return st
}

// inv asserts the reference invariant of the real session state against the ghost.
func (st *zzRefState) inv(tag string) {
	sess := st.sess
	np := 0
	for p := 0; p < zzNP; p++ {
		if st.pdr[p] {
			np++
		}
		info, ok := sess.PDRIDs[uint16(p+1)]
		zzAssert("C12.inv.pdr-exists."+tag, ok == st.pdr[p])
		if !ok || !st.pdr[p] {
			continue
		}
		na := 0
		for u := 0; u < st.nurr; u++ {
			_, has := info.RelatedURRIDs[uint32(u+1)]
			zzAssert("C12.inv.related."+tag, has == st.assoc[p][u])
			if st.assoc[p][u] {
				na++
			}
		}
		zzAssert("C12.inv.related-count."+tag, len(info.RelatedURRIDs) == na)
	}
	zzAssert("C12.inv.pdr-count."+tag, len(sess.PDRIDs) == np)
	nu := 0
	for u := 0; u < st.nurr; u++ {
		info, ok := sess.URRIDs[uint32(u+1)]
		zzAssert("C12.inv.urr-exists."+tag, ok == st.urr[u])
		if st.urr[u] {
			nu++
		}
		if ok && st.urr[u] {
			zzAssert("C12.inv.refcount."+tag, int(info.refPdrNum) == st.refs(u))
		}
	}
	zzAssert("C12.inv.urr-count."+tag, len(sess.URRIDs) == nu)
}

// idx maps a symbolic id to its slot 0..n-1 (or -1): forks on equality.
func zzSlot(id uint32, n int) int {
	for k := 0; k < n; k++ {
		if id == uint32(k+1) {
			return k
		}
	}
	return -1
}

func zzURRList(name string) ([]*ie.IE, []uint32) {
	n := nondetChoice(name+"-len", 3)
	var ies []*ie.IE
	var ids []uint32
	for i := 0; i < n; i++ {
		id := nondetU32(name)
		ies = append(ies, ie.NewURRID(id))
		ids = append(ids, id)
	}
	return ies, ids
}

type zzExpect struct {
	termr [zzNU]int
	immer [zzNU]int
}

// check decodes the single response and compares the usage reports with the expectation.
func (st *zzRefState) check(tag string, rspType uint8, urType uint16, ex zzExpect, deletion bool) {
	zzAssert("C12.one-response."+tag, zzSentCount() == 1)
	if zzSentCount() != 1 {
		return
	}
	b := zzSentBytes(0)
	zzObserve("rsp", b)
	h := zzParseHdr(b)
	zzAssert("C12.rsp-type."+tag, h.ok && h.typ == rspType)
	urs := zzUsageReports(b, h, urType)
	var gotT, gotI, gotOther [zzNU]int
	for _, r := range urs {
		zzAssert("C12.report-wellformed."+tag, r.hasURR && r.hasTrig && r.hasSeqn)
		k := zzSlot(r.urr, st.nurr)
		zzAssert("C12.report-known-urr."+tag, k >= 0)
		if k < 0 {
			continue
		}
		switch {
		case r.termr():
			gotT[k]++
		case r.immer():
			gotI[k]++
		default:
			gotOther[k]++
		}
	}
	for u := 0; u < st.nurr; u++ {
		zzAssert("C12.final-report-exactly-once."+tag, gotT[u] == ex.termr[u])
		zzAssert("C12.immediate-report."+tag, gotI[u] == ex.immer[u])
		zzAssert("C12.no-unmarked-report."+tag, gotOther[u] == 0)
	}
}

func zzC12CreatePDR(nurr int) {
	st := zzMkRef(nurr)
	st.inv("pre")
	pid := nondetU16("pdrid")
	p := zzSlot(uint32(pid), zzNP)
	// assumption (stated): Create PDR names a PDR id that does not exist yet
	if p >= 0 {
		zzAssume(!st.pdr[p])
	}
	uies, uids := zzURRList("urr")
	ies := append([]*ie.IE{ie.NewPDRID(pid)}, uies...)
	seq := nondetU32("seq") & 0xffffff
	zzDeliver(st.s, zzModReq(st.sess.LocalID, seq, ie.NewCreatePDR(ies...)), zzAddrA, seq)
	if p >= 0 {
		st.pdr[p] = true
		for _, id := range uids {
			if u := zzSlot(id, st.nurr); u >= 0 {
				st.assoc[p][u] = true
			}
		}
	}
	st.check("createpdr", 53, 78, zzExpect{}, false)
	if p >= 0 {
		known := true
		for _, id := range uids {
			if zzSlot(id, st.nurr) < 0 {
				known = false
			}
		}
		if known {
			st.inv("post-createpdr")
		}
	}
	zzCover("C12.createpdr.done")
}

func zzC12UpdatePDR(nurr int) {
	st := zzMkRef(nurr)
	pid := nondetU16("pdrid")
	p := zzSlot(uint32(pid), zzNP)
	uies, uids := zzURRList("urr")
	ies := append([]*ie.IE{ie.NewPDRID(pid)}, uies...)
	seq := nondetU32("seq") & 0xffffff
	var ex zzExpect
	var before [zzNU]int
	for u := 0; u < st.nurr; u++ {
		before[u] = st.refs(u)
	}
	hit := p >= 0 && st.pdr[p]
	known := true
	if hit {
		var na [zzNU]bool
		for _, id := range uids {
			if u := zzSlot(id, st.nurr); u >= 0 {
				na[u] = true
			} else {
				known = false
			}
		}
		st.assoc[p] = na
		for u := 0; u < st.nurr; u++ {
			if st.urr[u] && before[u] > 0 && st.refs(u) == 0 {
				ex.termr[u] = 1
			}
		}
	}
	zzDeliver(st.s, zzModReq(st.sess.LocalID, seq, ie.NewUpdatePDR(ies...)), zzAddrA, seq)
	st.check("updatepdr", 53, 78, ex, false)
	if known {
		st.inv("post-updatepdr")
	}
	if hit {
		zzCover("C12.updatepdr.hit")
	}
	zzCover("C12.updatepdr.done")
}

func zzC12RemovePDR(nurr int) {
	st := zzMkRef(nurr)
	pid := nondetU16("pdrid")
	p := zzSlot(uint32(pid), zzNP)
	seq := nondetU32("seq") & 0xffffff
	var ex zzExpect
	if p >= 0 && st.pdr[p] {
		var before [zzNU]int
		for u := 0; u < st.nurr; u++ {
			before[u] = st.refs(u)
		}
		st.pdr[p] = false
		st.assoc[p] = [zzNU]bool{}
		for u := 0; u < st.nurr; u++ {
			if st.urr[u] && before[u] > 0 && st.refs(u) == 0 {
				ex.termr[u] = 1
			}
		}
		zzCover("C12.removepdr.hit")
	}
	zzDeliver(st.s, zzModReq(st.sess.LocalID, seq, ie.NewRemovePDR(ie.NewPDRID(pid))), zzAddrA, seq)
	st.check("removepdr", 53, 78, ex, false)
	st.inv("post-removepdr")
	zzCover("C12.removepdr.done")
}

func zzC12CreateURR(nurr int) {
	st := zzMkRef(nurr)
	uid := nondetU32("urrid")
	u := zzSlot(uid, st.nurr)
	// assumption (stated): Create URR names a URR id that does not exist (re-creation after removal is allowed)
	if u >= 0 {
		zzAssume(!st.urr[u])
	}
	seq := nondetU32("seq") & 0xffffff
	cu := ie.NewCreateURR(ie.NewURRID(uid), ie.NewMeasurementMethod(0, 1, 0), ie.NewReportingTriggers(0x02, 0x00))
	zzDeliver(st.s, zzModReq(st.sess.LocalID, seq, cu), zzAddrA, seq)
	if u >= 0 {
		st.urr[u] = true
	}
	st.check("createurr", 53, 78, zzExpect{}, false)
	if u >= 0 {
		st.inv("post-createurr")
	}
	zzCover("C12.createurr.done")
}

func zzC12RemoveURR(nurr int) {
	st := zzMkRef(nurr)
	uid := nondetU32("urrid")
	u := zzSlot(uid, st.nurr)
	seq := nondetU32("seq") & 0xffffff
	var ex zzExpect
	if u >= 0 && st.urr[u] {
		ex.termr[u] = 1
		st.urr[u] = false
		zzCover("C12.removeurr.hit")
	}
	zzDeliver(st.s, zzModReq(st.sess.LocalID, seq, ie.NewRemoveURR(ie.NewURRID(uid))), zzAddrA, seq)
	st.check("removeurr", 53, 78, ex, false)
	st.inv("post-removeurr")
	zzCover("C12.removeurr.done")
}

func zzC12QueryURR(nurr int) {
	st := zzMkRef(nurr)
	uid := nondetU32("urrid")
	u := zzSlot(uid, st.nurr)
	seq := nondetU32("seq") & 0xffffff
	var ex zzExpect
	if u >= 0 && st.urr[u] {
		ex.immer[u] = 1
		zzCover("C12.queryurr.hit")
	}
	zzDeliver(st.s, zzModReq(st.sess.LocalID, seq, ie.NewQueryURR(ie.NewURRID(uid))), zzAddrA, seq)
	st.check("queryurr", 53, 78, ex, false)
	st.inv("post-queryurr")
	zzCover("C12.queryurr.done")
}

func zzC12Delete(nurr int) {
	st := zzMkRef(nurr)
	seq := nondetU32("seq") & 0xffffff
	var ex zzExpect
	for u := 0; u < st.nurr; u++ {
		if st.urr[u] {
			ex.termr[u] = 1
		}
	}
	zzDeliver(st.s, zzDelReq(st.sess.LocalID, seq), zzAddrA, seq)
	st.check("delete", 55, 79, ex, true)
	zzAssert("C12.delete.dp-empty", st.dp.rulesOf(1) == 0)
	zzCover("C12.delete.done")
}

func zzNU12() int { return 2 + zzTier() }

func ZZ_C12_CreatePDR() { zzC12CreatePDR(zzNU12()) }
func ZZ_C12_UpdatePDR() { zzC12UpdatePDR(zzNU12()) }
func ZZ_C12_RemovePDR() { zzC12RemovePDR(zzNU12()) }
func ZZ_C12_CreateURR() { zzC12CreateURR(zzNU12()) }
func ZZ_C12_RemoveURR() { zzC12RemoveURR(zzNU12()) }
func ZZ_C12_QueryURR()  { zzC12QueryURR(zzNU12()) }
func ZZ_C12_Delete()    { zzC12Delete(zzNU12()) }

// ---- bounded histories from an empty session, observable oracle only ----

func zzLists(k int) []uint32 {
	switch k {
	case 1:
		return []uint32{1}
	case 2:
		return []uint32{2}
	case 3:
		return []uint32{1, 2}
	}
	return nil
}

func zzC12History(depth int) {
	dp := &zzDP{}
	s := zzNewServer(dp)
	dp.ln = &s.lnode
	seq := uint32(1)
	zzDeliver(s, zzAssocReq(seq, zzNodeA), zzAddrA, seq)
	seq++
	zzDeliver(s, zzEstReq(seq, ie.NewNodeID(zzNodeA, "", ""), ie.NewFSEID(nondetU64("cpseid"), []byte{127, 0, 0, 1}, nil)), zzAddrA, seq)
	base := zzSentCount()
	zzAssert("C12.hist.established", base == 2)
	st := &zzRefState{nurr: 2, s: s, dp: dp}
	for step := 0; step < depth; step++ {
		seq++
		op := nondetChoice("op", 6)
		var ex zzExpect
		var before [zzNU]int
		for u := 0; u < 2; u++ {
			before[u] = st.refs(u)
		}
		var req *ie.IE
		switch op {
		case 0, 1: // Create / Update PDR
			p := nondetChoice("pdr", zzNP)
			l := zzLists(nondetChoice("list", 4))
			ies := []*ie.IE{ie.NewPDRID(uint16(p + 1))}
			for _, id := range l {
				ies = append(ies, ie.NewURRID(id))
			}
			if op == 0 {
				zzAssume(!st.pdr[p])
				req = ie.NewCreatePDR(ies...)
				st.pdr[p] = true
			} else {
				zzAssume(st.pdr[p])
				req = ie.NewUpdatePDR(ies...)
			}
			st.assoc[p] = [zzNU]bool{}
			for _, id := range l {
				st.assoc[p][id-1] = true
			}
		case 2:
			p := nondetChoice("pdr", zzNP)
			zzAssume(st.pdr[p])
			req = ie.NewRemovePDR(ie.NewPDRID(uint16(p + 1)))
			st.pdr[p] = false
			st.assoc[p] = [zzNU]bool{}
		case 3:
			u := nondetChoice("urr", 2)
			zzAssume(!st.urr[u])
			req = ie.NewCreateURR(ie.NewURRID(uint32(u+1)), ie.NewMeasurementMethod(0, 1, 0), ie.NewReportingTriggers(0x02, 0x00))
			st.urr[u] = true
			before[u] = 0 // a new incarnation: references count from now on
		case 4:
			u := nondetChoice("urr", 2)
			zzAssume(st.urr[u])
			req = ie.NewRemoveURR(ie.NewURRID(uint32(u + 1)))
			st.urr[u] = false
			ex.termr[u] = 1
		case 5:
			u := nondetChoice("urr", 2)
			zzAssume(st.urr[u])
			req = ie.NewQueryURR(ie.NewURRID(uint32(u + 1)))
			ex.immer[u] = 1
		}
		for u := 0; u < 2; u++ {
			if st.urr[u] && before[u] > 0 && st.refs(u) == 0 {
				ex.termr[u] = 1
			}
		}
		zzDeliver(s, zzModReq(1, seq, req), zzAddrA, seq)
		zzAssert("C12.hist.one-response", zzSentCount() == base+1)
		if zzSentCount() != base+1 {
			return
		}
		b := zzSentBytes(base)
		base++
		h := zzParseHdr(b)
		zzAssert("C12.hist.rsp-type", h.ok && h.typ == 53)
		urs := zzUsageReports(b, h, 78)
		var gotT, gotI [zzNU]int
		for _, r := range urs {
			k := zzSlot(r.urr, 2)
			zzAssert("C12.hist.report-known-urr", k >= 0)
			if k < 0 {
				continue
			}
			if r.termr() {
				gotT[k]++
			} else if r.immer() {
				gotI[k]++
			} else {
				zzAssert("C12.hist.unmarked-report", false)
			}
		}
		for u := 0; u < 2; u++ {
			zzAssert("C12.hist.final-report-exactly-once", gotT[u] == ex.termr[u])
			zzAssert("C12.hist.immediate-report", gotI[u] == ex.immer[u])
		}
	}
	// finally delete the session: every URR still existing reports once, flagged TERMR
	seq++
	zzDeliver(s, zzDelReq(1, seq), zzAddrA, seq)
	zzAssert("C12.hist.del-response", zzSentCount() == base+1)
	if zzSentCount() != base+1 {
		return
	}
	b := zzSentBytes(base)
	h := zzParseHdr(b)
	urs := zzUsageReports(b, h, 79)
	var gotT [zzNU]int
	for _, r := range urs {
		k := zzSlot(r.urr, 2)
		if k >= 0 && r.termr() {
			gotT[k]++
		} else {
			zzAssert("C12.hist.del-report-marked", false)
		}
	}
	for u := 0; u < 2; u++ {
		want := 0
		if st.urr[u] {
			want = 1
		}
		zzAssert("C12.hist.del-final-report-exactly-once", gotT[u] == want)
	}
	zzCover("C12.hist.done")
}

func ZZ_C12_History() { zzC12History(3 + zzTier()) }
