package sx

import (
	"fmt"
	"go/types"
	"strings"

	"gosymx/term"
)

type mentry struct {
	key, val value
	deleted  bool
}

// mapObj is an insertion-ordered map. Concrete keys are indexed by a
// canonical string; symbolic keys are scanned.
type mapObj struct {
	kt, vt  types.Type
	entries []*mentry
	idx     map[string]*mentry
	nsym    int // live entries with symbolic keys
	n       int
}

func newMap(kt, vt types.Type) *mapObj {
	return &mapObj{kt: kt, vt: vt, idx: make(map[string]*mentry)}
}

func (mo *mapObj) length() int { return mo.n }

func (mo *mapObj) clear() {
	for _, e := range mo.entries {
		e.deleted = true
	}
	mo.entries = nil
	mo.idx = make(map[string]*mentry)
	mo.nsym = 0
	mo.n = 0
}

// keyString returns a canonical encoding of a fully concrete key.
func keyString(v value) (string, bool) {
	var sb strings.Builder
	if !writeKey(&sb, v) {
		return "", false
	}
	return sb.String(), true
}

func writeKey(sb *strings.Builder, v value) bool {
	switch v := v.(type) {
	case bool:
		if v {
			sb.WriteString("T")
		} else {
			sb.WriteString("F")
		}
	case uint64:
		fmt.Fprintf(sb, "i%d;", v)
	case float64:
		fmt.Fprintf(sb, "f%v;", v)
	case string:
		fmt.Fprintf(sb, "s%d:%s;", len(v), v)
	case *value:
		fmt.Fprintf(sb, "p%p;", v)
	case *chanObj:
		fmt.Fprintf(sb, "c%p;", v)
	case structure:
		sb.WriteString("{")
		for _, e := range v {
			if !writeKey(sb, e) {
				return false
			}
		}
		sb.WriteString("}")
	case array:
		sb.WriteString("[")
		for _, e := range v {
			if !writeKey(sb, e) {
				return false
			}
		}
		sb.WriteString("]")
	case iface:
		if v.t == nil {
			sb.WriteString("N;")
		} else {
			fmt.Fprintf(sb, "I%s:", v.t.String())
			if !writeKey(sb, v.v) {
				return false
			}
		}
	case opaque:
		fmt.Fprintf(sb, "o%p;", v.v)
	default:
		return false
	}
	return true
}

// find locates the entry for key, forking when the match depends on symbolic values.
func (m *Machine) mapFind(mo *mapObj, key value) *mentry {
	if mo == nil {
		return nil
	}
	ks, conc := keyString(key)
	if conc && mo.nsym == 0 {
		return mo.idx[ks]
	}
	// symbolic scan over live entries
	var live []*mentry
	var eqs []*term.Term
	for _, e := range mo.entries {
		if e.deleted {
			continue
		}
		c := m.equals(mo.kt, key, e.key)
		switch c := c.(type) {
		case bool:
			if c {
				// definite match: earlier symbolic candidates cannot also match a *different* live key,
				// but they may be equal to the probe; keys in a map are pairwise distinct, so a definite
				// match excludes the others.
				return e
			}
		case *term.Term:
			live = append(live, e)
			eqs = append(eqs, c)
		}
	}
	if len(live) == 0 {
		return nil
	}
	alts := make([]*term.Term, len(live)+1)
	none := m.F.True()
	for i, c := range eqs {
		alts[i] = c
		none = m.F.BAnd(none, m.F.BNot(c))
	}
	alts[len(live)] = none
	i := m.choose(alts)
	if i == len(live) {
		return nil
	}
	return live[i]
}

func (m *Machine) mapLookup(mo *mapObj, key value) (value, bool) {
	e := m.mapFind(mo, key)
	if e == nil {
		return nil, false
	}
	return e.val, true
}

func (m *Machine) mapInsert(mo *mapObj, key, val value) {
	e := m.mapFind(mo, key)
	if e != nil {
		e.val = val
		return
	}
	ne := &mentry{key: copyVal(key), val: val}
	mo.entries = append(mo.entries, ne)
	mo.n++
	if ks, ok := keyString(key); ok {
		mo.idx[ks] = ne
	} else {
		mo.nsym++
	}
	// compact tombstones occasionally
	if len(mo.entries) > 32 && len(mo.entries) > 2*mo.n {
		live := mo.entries[:0:0]
		for _, x := range mo.entries {
			if !x.deleted {
				live = append(live, x)
			}
		}
		mo.entries = live
	}
}

func (m *Machine) mapDelete(mo *mapObj, key value) {
	e := m.mapFind(mo, key)
	if e == nil {
		return
	}
	e.deleted = true
	mo.n--
	if ks, ok := keyString(e.key); ok {
		delete(mo.idx, ks)
	} else {
		mo.nsym--
	}
}
