//go:build verif

package pfcp

import (
	"net"
	"time"

	"github.com/free5gc/go-upf/internal/forwarder"
	"github.com/free5gc/go-upf/pkg/factory"
)

var (
	zzAddrA = &net.UDPAddr{IP: net.IP{127, 0, 0, 1}, Port: 8805}
	zzAddrB = &net.UDPAddr{IP: net.IP{127, 0, 0, 2}, Port: 8805}
	// peer A after it moved to another source port (same node id)
	zzAddrA2 = &net.UDPAddr{IP: net.IP{127, 0, 0, 1}, Port: 8806}
)

const (
	zzNodeA = "127.0.0.1"
	zzNodeB = "127.0.0.2"
	zzUPFID = "127.0.0.3"
)

func zzAddr(i int) net.Addr {
	switch i {
	case 0:
		return zzAddrA
	case 2:
		return zzAddrA2 // another endpoint on A's host: same IP address, other port
	}
	return zzAddrB
}

// zzFindRx / zzFindTx locate a transaction by what identifies it on the wire - the peer's transport
// address and the sequence number - without assuming how the implementation spells its map keys.
func zzFindRx(s *PfcpServer, addr net.Addr, seq uint32) *RxTransaction {
	for _, rx := range s.rxTrans {
		if rx.raddr.String() == addr.String() && rx.seq == seq {
			return rx
		}
	}
	return nil
}

func zzFindTx(s *PfcpServer, addr net.Addr, counter uint32) *TxTransaction {
	for _, tx := range s.txTrans {
		if tx.raddr.String() == addr.String() && tx.seq&0xffffff == counter&0xffffff {
			return tx
		}
	}
	return nil
}

func zzNodeID(i int) string {
	if i == 0 {
		return zzNodeA
	}
	return zzNodeB
}

func zzNewServer(drv forwarder.Driver) *PfcpServer {
	cfg := &factory.Config{Pfcp: &factory.Pfcp{Addr: zzUPFID, NodeID: zzUPFID, RetransTimeout: time.Hour, MaxRetrans: 3}}
	s := NewPfcpServer(cfg, drv)
	s.conn = zzConn()
	return s
}

// ---- tier parameter ----

// zzMaxL is the table-length bound of the C04/C05/C07c shape harnesses: 3 (quick), 4 (thorough).
func zzMaxL() int { return 3 + zzTier() }

// ---- reference header decoder (TS 29.244 7.2.2) ----

type zzHdr struct {
	ok      bool
	version uint8
	s       bool
	typ     uint8
	length  int
	seid    uint64
	seq     uint32
	off     int // offset of the first IE
}

func zzParseHdr(b []byte) zzHdr {
	var h zzHdr
	if len(b) < 8 {
		return h
	}
	h.version = b[0] >> 5
	h.s = b[0]&1 == 1
	h.typ = b[1]
	h.length = int(b[2])<<8 | int(b[3])
	p := 4
	if h.s {
		if len(b) < 16 {
			return h
		}
		for i := 0; i < 8; i++ {
			h.seid = h.seid<<8 | uint64(b[p+i])
		}
		p += 8
	}
	h.seq = uint32(b[p])<<16 | uint32(b[p+1])<<8 | uint32(b[p+2])
	p += 4
	h.off = p
	h.ok = h.length+4 == len(b)
	return h
}

// zzFindIE returns the payload of the first top-level IE of type t (nil, false if absent).
func zzFindIE(b []byte, h zzHdr, t uint16) ([]byte, bool) {
	p := h.off
	for p+4 <= len(b) {
		typ := uint16(b[p])<<8 | uint16(b[p+1])
		l := int(b[p+2])<<8 | int(b[p+3])
		if p+4+l > len(b) {
			return nil, false
		}
		if typ == t {
			return b[p+4 : p+4+l], true
		}
		p += 4 + l
	}
	return nil, false
}

// zzCountIE counts top-level IEs of type t.
func zzCountIE(b []byte, h zzHdr, t uint16) int {
	n := 0
	p := h.off
	for p+4 <= len(b) {
		typ := uint16(b[p])<<8 | uint16(b[p+1])
		l := int(b[p+2])<<8 | int(b[p+3])
		if p+4+l > len(b) {
			return n
		}
		if typ == t {
			n++
		}
		p += 4 + l
	}
	return n
}

func zzFindCause(b []byte, h zzHdr) uint8 {
	p, ok := zzFindIE(b, h, 19)
	if !ok || len(p) < 1 {
		return 0
	}
	return p[0]
}

// ---- reference decoder for Usage Report IEs (TS 29.244 7.5.5.2 / 7.5.7.2 / 7.5.8.3) ----

type zzUR struct {
	urr     uint32
	seqn    uint32
	trig    [3]byte
	hasURR  bool
	hasSeqn bool
	hasTrig bool
	hasVol  bool
	hasDur  bool
	hasST   bool
	hasET   bool
	vol     []byte
	st, et  uint32
	dur     uint32
	nkids   int
}

func (u zzUR) termr() bool { return u.trig[1]&0x08 != 0 }
func (u zzUR) immer() bool { return u.trig[0]&0x80 != 0 }
func (u zzUR) perio() bool { return u.trig[0]&0x01 != 0 }

func zzBE32(b []byte) uint32 {
	return uint32(b[0])<<24 | uint32(b[1])<<16 | uint32(b[2])<<8 | uint32(b[3])
}

// zzUsageReports decodes all top-level grouped IEs of type t (78 mod rsp, 79 del rsp, 80 report req).
func zzUsageReports(b []byte, h zzHdr, t uint16) []zzUR {
	var out []zzUR
	p := h.off
	for p+4 <= len(b) {
		typ := uint16(b[p])<<8 | uint16(b[p+1])
		l := int(b[p+2])<<8 | int(b[p+3])
		if p+4+l > len(b) {
			return out
		}
		if typ == t {
			out = append(out, zzDecodeUR(b[p+4:p+4+l]))
		}
		p += 4 + l
	}
	return out
}

func zzDecodeUR(g []byte) zzUR {
	var u zzUR
	p := 0
	for p+4 <= len(g) {
		typ := uint16(g[p])<<8 | uint16(g[p+1])
		l := int(g[p+2])<<8 | int(g[p+3])
		if p+4+l > len(g) {
			return u
		}
		v := g[p+4 : p+4+l]
		switch typ {
		case 81: // URR ID
			if l == 4 {
				u.urr, u.hasURR = zzBE32(v), true
			}
		case 104: // UR-SEQN
			if l == 4 {
				u.seqn, u.hasSeqn = zzBE32(v), true
			}
		case 63: // Usage Report Trigger
			if l >= 2 {
				u.trig[0], u.trig[1] = v[0], v[1]
				if l >= 3 {
					u.trig[2] = v[2]
				}
				u.hasTrig = true
			}
		case 66:
			u.hasVol, u.vol = true, v
		case 67:
			u.hasDur = true
			if l == 4 {
				u.dur = zzBE32(v)
			}
		case 75:
			u.hasST = true
			if l == 4 {
				u.st = zzBE32(v)
			}
		case 76:
			u.hasET = true
			if l == 4 {
				u.et = zzBE32(v)
			}
		}
		u.nkids++
		p += 4 + l
	}
	return u
}
