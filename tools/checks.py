"""Registry of checks: which harness entries decide which property, at which bounds."""

NL_OVERLAYS = {}

CHECKS = {}

CHECKS["C14"] = {
    "jobs": {
        "quick": [{"pkg": "internal/gtpv1", "entries": ["ZZ_C14_Quick"], "witnesses": 6},
                  {"pkg": "internal/forwarder", "entries": ["ZZ_C14_WriteSequence"], "witnesses": 6, "max_paths": 200000}],
        "thorough": [{"pkg": "internal/gtpv1", "entries": ["ZZ_C14_Quick", "ZZ_C14_Thorough"], "witnesses": 16},
                     {"pkg": "internal/forwarder", "entries": ["ZZ_C14_WriteSequence"], "witnesses": 12, "max_paths": 2000000}],
    },
    "covers": {"quick": ["ZZ_C14_Quick:C14.done", "ZZ_C14_WriteSequence:C14.write.done"], "thorough": ["ZZ_C14_Quick:C14.done", "ZZ_C14_Thorough:C14.done", "ZZ_C14_WriteSequence:C14.write.done"]},
    "bounds": {
        "quick": "payload length 0..16, 239..260 (the length field carries into its high octet at total length 256), 1400 and 1500, with/without PDU session container; QFI (assumed < 64), PDU type (< 16), TEID (32 bit) and every payload byte symbolic; Gtp5g.WritePacket called twice on one driver object with payload lengths 0..5, 243, 244 or 1400 each, with/without QFI, every datagram checked on its own",
        "thorough": "payload length 0..64 and windows of 22 lengths ending 4 above 256, 512, 1024, 1400, 1500 and 9000, with/without extension; same symbolic inputs; three WritePacket calls in a row",
    },
    "outside": "flag combinations other than 0x34; payloads above 65527 bytes (length field wraps); more than one extension header",
    "assumptions": ["QFI < 64 and PDU type < 16 (the ranges the property quantifies over)",
                    "reference decoder in the harness transcribed from TS 29.281 5.1/5.2.1 and TS 38.415 5.5.2"],
}

CHECKS["C19"] = {
    "jobs": {
        "quick": [{"pkg": "internal/report", "entries": ["ZZ_C19_*"], "witnesses": 4}],
        "thorough": [{"pkg": "internal/report", "entries": ["ZZ_C19_*"], "witnesses": 16}],
    },
    "covers": {"all": ["ZZ_C19_ApplyAction:C19.aa.done", "ZZ_C19_ApplyAction:C19.aa.short", "ZZ_C19_ReportingTrigger:C19.rt.done",
                       "ZZ_C19_ReportingTrigger:C19.rt.short", "ZZ_C19_UsageReportTriggerIE:C19.ut.done",
                       "ZZ_C19_SetReportingTrigger:C19.set.done", "ZZ_C19_VolumeMeasure:C19.vm.setflags.done",
                       "ZZ_C19_VolumeMeasureIE:C19.vm.ie.done"]},
    "bounds": {
        "quick": "Apply Action IE length 0..2, Reporting Triggers length 0..3, all octets symbolic; Usage Report Trigger flags 32-bit symbolic; reporting cause 32-bit symbolic; Volume Measurement flags 6-bit symbolic with six 64-bit symbolic counters. Complete over octet values within these lengths.",
        "thorough": "same (the quick bound is already complete over all octet values)",
    },
    "outside": "Apply Action IEs longer than 2 octets and Reporting Triggers longer than 3 octets (later releases); Usage Report Trigger decode (go-upf only encodes it)",
    "assumptions": ["oracle = spec/ts29244_flags.json, transcribed by hand from TS 29.244 8.2.26/8.2.19/8.2.41/8.2.13; tools/gen_c19.py turns it into assertions",
                    "'same name' is literal: REEMR has no same-named usage-report trigger and must map to nothing"],
}

PFCP_ASSUME = [
    "logrus calls are no-ops (Fatal* = process exit event); fmt/pkg-errors formatting is an intrinsic (pkg/errors.Wrap(nil)==nil kept); go-pfcp's informational logger and encoding/hex.Dump (argument of a Tracef) are empty stubs",
    "UDP: WriteTo appends to a log, no loss/reordering, and never fails except towards 192.0.2.9 (the one send failure modelled; natively the loop-back bound socket is refused the same way); timers fire only when a harness fires them (zzFireTimer)",
    "native replays run in a private network namespace when unshare -n is permitted (fixed loop-back endpoints 127.0.0.1-3:8805, 127.0.0.1:8806, :2152 would otherwise collide between checks running at the same time)",
    "time.Now is a fixed concrete instant; node ids are IPv4 literals (no DNS)",
    "map iteration in insertion order in the engine (Go randomises); oracles treat map-ordered outputs as multisets",
]

CHECKS["C04"] = {
    "jobs": {
        "quick": [{"pkg": "internal/pfcp", "entries": ["ZZ_C04_*"], "witnesses": 3, "max_paths": 20000}],
        "thorough": [{"pkg": "internal/pfcp", "entries": ["ZZ_C04_*"], "witnesses": 6, "max_paths": 200000}],
    },
    "covers": {"all": ["ZZ_C04_Lookup:C04.lookup.done", "ZZ_C04_NodeLookup:C04.nodelookup.done", "ZZ_C04_New:C04.new.done",
                       "ZZ_C04_DeleteNode:C04.delete.hit", "ZZ_C04_DeleteNode:C04.delete.miss", "ZZ_C04_DeleteLocal:C04.delete.hit",
                       "ZZ_C04_Reset:C04.reset.done", "ZZ_C04_RemoteSess:C04.remotesess.done",
                       "ZZ_C04_ModifyHeader:C04.mod.done", "ZZ_C04_DeleteHeader:C04.del.done",
                       "ZZ_C04_ReportRspZero:C04.reportrsp0.hit", "ZZ_C04_ReportRspZero:C04.reportrsp0.miss",
                       "ZZ_C04_ReassocMoved:C04.moved.released", "ZZ_C04_ReassocMoved:C04.moved.kept"]},
    "bounds": {
        "quick": "one-step induction: every SEID-table shape of length <= 3 (any nil pattern, any free-list permutation, any owner assignment over 2 nodes, symbolic CP SEIDs) x one operation (lookup, node lookup, new, delete via node, delete local, node reset, remote lookup, Modification/Deletion request header, Session Report Response with SEID 0 for a symbolic CP SEID and either peer) with unconstrained 64-bit SEID arguments; plus one history through the handlers: association, optional session, association again under the same Node ID from the same or another of three addresses, establishment with a symbolic CP SEID, SEID-0 report response from the current or the earlier address",
        "thorough": "same with table length <= 4",
    },
    "outside": "tables longer than the bound; more than two control-plane nodes",
    "assumptions": PFCP_ASSUME + ["representation invariant I1-I4 of DESIGN.md 6/C04 assumed on the pre-state and re-established after each operation"],
}

CHECKS["C12"] = {
    "jobs": {
        "quick": [{"pkg": "internal/pfcp", "entries": ["ZZ_C12_*"], "witnesses": 3, "max_paths": 100000}],
        "thorough": [{"pkg": "internal/pfcp", "entries": ["ZZ_C12_*"], "witnesses": 6, "max_paths": 2000000, "budget_s": 1500}],
    },
    "covers": {"all": ["ZZ_C12_CreatePDR:C12.createpdr.done", "ZZ_C12_UpdatePDR:C12.updatepdr.hit", "ZZ_C12_RemovePDR:C12.removepdr.hit",
                       "ZZ_C12_CreateURR:C12.createurr.done", "ZZ_C12_RemoveURR:C12.removeurr.hit", "ZZ_C12_QueryURR:C12.queryurr.hit",
                       "ZZ_C12_Delete:C12.delete.done", "ZZ_C12_History:C12.hist.done"]},
    "bounds": {
        "quick": "one-step induction: every reference state over <= 2 PDRs and <= 2 URR ids (existence and association subsets arbitrary, refcounts per invariant) x one Session Modification/Deletion request carrying one of Create/Update/Remove PDR, Create/Remove/Query URR with symbolic ids and symbolic URR lists of <= 2 entries (repeats and unknown ids included)",
        "thorough": "same with <= 3 URR ids (the third may be dangling: named by PDRs without existing)",
    },
    "outside": "more than 2 PDRs / 3 URRs; several rule IEs in one request; Create PDR/URR naming an id that already exists (stated assumption); data-plane faults (those are C01)",
    "assumptions": PFCP_ASSUME + ["model data plane: a successful RemoveURR/QueryURR returns exactly one report for that URR (go-gtp5gnl contract)"],
}

CHECKS["C01"] = {
    "jobs": {
        "quick": [{"pkg": "internal/pfcp", "entries": ["ZZ_C01_*"], "witnesses": 3, "max_paths": 400000, "budget_s": 600}],
        "thorough": [{"pkg": "internal/pfcp", "entries": ["ZZ_C01_*"], "witnesses": 6, "max_paths": 5000000, "budget_s": 3000}],
    },
    "covers": {"all": ["ZZ_C01_OwnNodeID:C01.own-nodeid.done", "ZZ_C01_URRRecreated:C01.urr-recreated.done", "ZZ_C01_TwoNodesSeid0:C01.two-nodes-seid0.done", "ZZ_C01_URRRecreated:C01.urr-recreated.recreated", "ZZ_C01_FAR:C01.hist.done", "ZZ_C01_FAR:C01.est.done", "ZZ_C01_FAR:C01.mod.done", "ZZ_C01_FAR:C01.del.done",
                       "ZZ_C01_FAR:C01.assoc.ended-session", "ZZ_C01_FAR:C01.reportrsp.done", "ZZ_C01_URR:C01.hist.done", "ZZ_C01_PDR:C01.hist.done", "ZZ_C01_PDRURR:C01.hist.done", "ZZ_C01_PDRURR:C01.del.done"]},
    "bounds": {
        "quick": "histories of 3 steps after an association, per rule kind (FAR, QER, BAR, URR, PDR): each step one of Association Setup (2 nodes; node A from its usual or from another source address), Establishment (0..2 Create IEs), Modification (one Create/Update/Remove/Query IE), Deletion, Session Report Response (SEID 0 or not); rule ids from {1,2} or unconstrained; one symbolic fault per create/update/query data-plane call; plus one fixed history: Establishment, 1..2 Modifications that carry the owner's OWN Node ID, re-association; plus one URR id queried / removed / created again over 3 requests with a data plane that answers a query or removal with 0 or 1 usage report, the session then ended by Deletion, re-association or a SEID-0 report response (every rule withdrawn); and two associated nodes establishing one session each (symbolic CP SEIDs) followed by a SEID-0 report response",
        "thorough": "same with 4 steps",
    },
    "outside": "longer histories; more than 2 addressed sessions; several rule kinds mixed in one history (each kind is a separate shard); remove failures (excluded by the property's fault model)",
    "assumptions": PFCP_ASSUME + ["model data plane zzDP per DESIGN.md Appendix F.1 (a failed create leaves the rule possibly installed)"],
}

CHECKS["C05"] = {
    "jobs": {
        "quick": [{"pkg": "internal/pfcp", "entries": ["ZZ_C05_*"], "witnesses": 3, "max_paths": 200000}],
        "thorough": [{"pkg": "internal/pfcp", "entries": ["ZZ_C05_*"], "witnesses": 8, "max_paths": 2000000}],
    },
    "covers": {"all": ["ZZ_C05_DeleteReuseReassoc:C05.reuse2.ended-by-seid0", "ZZ_C05_Modify:C05.mod.done", "ZZ_C05_Delete:C05.del.done", "ZZ_C05_Assoc:C05.assoc.done", "ZZ_C05_ReportRsp:C05.reportrsp.done",
                       "ZZ_C05_ReportRsp:C05.reportrsp.nobody", "ZZ_C05_Establish:C05.est.done", "ZZ_C05_Reports:C05.reports.done", "ZZ_C05_Takeover:C05.takeover.done",
                       "ZZ_C05_DeleteReuseReassoc:C05.reuse2.done"]},
    "bounds": {
        "quick": "frame check around one handler step: bystander session B (rules of all five kinds, one buffered packet, UR-SEQN 1) and acting session A on the same or the other node whose five rule ids and CP SEID are symbolic and may equal B's; steps: Modification with one Create/Update/Remove/Query IE of any kind and symbolic id, Deletion followed by SEID reuse (the new session then buffers and pops a packet of its own under A's PDR id), Association Setup of either node, SEID-0 report response (from either node's address or a third endpoint, answering a report that named A's or B's control-plane SEID: for A, or for nobody), Establishment, kernel buffer/usage notification, takeover (to an unused node id, to the other associated node's id or to the id the node already has; the request sent once or twice) followed by re-association of any of three node ids; the two nodes are on different hosts or on one host with different source ports; in the delete+reuse+re-association history the first session ends by a Deletion Request or by a SEID-0 report response",
        "thorough": "same (the single-step bound is already complete over ids and SEIDs)",
    },
    "outside": "more than two sessions / two nodes; multi-step histories other than takeover+re-association and delete+reuse; B and A sharing both CP SEID and peer (then 'the session the report was sent for' is not determined by the message)",
    "assumptions": PFCP_ASSUME,
}

CHECKS["C11"] = {
    "jobs": {
        "quick": [{"pkg": "internal/pfcp", "entries": ["ZZ_C11_*"], "witnesses": 3, "max_paths": 400000, "budget_s": 600}],
        "thorough": [{"pkg": "internal/pfcp", "entries": ["ZZ_C11_*"], "witnesses": 8, "max_paths": 8000000, "budget_s": 10800}],
    },
    "covers": {"all": ["ZZ_C11_MixedBatch:C11.mixed.done", "ZZ_C11_History:C11.hist.done", "ZZ_C11_History:C11.report-seen", "ZZ_C11_History:C11.recreated", "ZZ_C11_TwoSessions:C11.two.done"]},
    "bounds": {
        "quick": "histories of 3 steps over one session with <= 2 URRs (URR 1 starting at an arbitrary symbolic UR-SEQN, referenced by PDR 1): kernel/periodic notification with 1..2 reports naming arbitrary URR ids, Query/Update/Remove URR with symbolic id, Create URR, Remove PDR, session deletion; the model data plane returns 0..2 reports per query/update and 1..2 per removal; plus two sessions with equal URR ids for independence; plus batches that mix usage reports with a downlink-data report (any action word, empty or one-octet packet) in three positions, framed by plain reports",
        "thorough": "same with 4 steps",
    },
    "outside": "longer histories; more than 2 URRs per session; remove failures",
    "assumptions": PFCP_ASSUME + ["relaxed model data plane (several reports for one URR in one response)"],
}

CHECKS["C08"] = {
    "jobs": {
        "quick": [{"pkg": "internal/pfcp", "entries": ["ZZ_C08_*"], "witnesses": 4, "max_paths": 200000}],
        "thorough": [{"pkg": "internal/pfcp", "entries": ["ZZ_C08_*"], "witnesses": 8, "max_paths": 2000000}],
    },
    "covers": {"all": ["ZZ_C08_EqualCPSEIDs:C08.eq.done", "ZZ_C08_SessionLevel:C08.sess.with-cp-fseid", "ZZ_C08_Heartbeat:C08.hb.done", "ZZ_C08_AssocNoNodeID:C08.assoc-nonode.done", "ZZ_C08_Establish:C08.est.done",
                       "ZZ_C08_Establish:C08.est.early-return", "ZZ_C08_SessionLevel:C08.sess.live", "ZZ_C08_SessionLevel:C08.sess.notfound",
                       "ZZ_C08_SessionLevel:C08.sess.bad-nodeid", "ZZ_C08_SessionLevel:C08.sess.ended-before", "ZZ_C08_Retransmission:C08.rtx.done"]},
    "bounds": {
        "quick": "one or two requests per run: Heartbeat + Association Setup (either peer), Association Setup without Node ID, Establishment (known/unknown node, with/without Node ID, CP F-SEID present / absent / present but undecodable (truncated, empty), 0..2 Create PDRs each with/without a UE IPv4 address, symbolic PDR ids and CP SEID) followed by a Modification to the returned UP SEID, Modification/Deletion/Modification-with-undecodable-Node-ID addressed by an unconstrained 64-bit header SEID from either peer, with the session alive, already deleted, or dropped by a re-association of its node; a Modification may carry a CP F-SEID IE with another SEID (the response and the following Deletion response must then name the same SEID, one of the two); sequence numbers symbolic 24 bit; start instant 2026-10-01; two peers establishing sessions with EQUAL CP SEIDs, then one of them ends its session (Deletion or SEID-0 report response) and both address their sessions again",
        "thorough": "same with three start instants (NTP second 1, 2026-10-01, last second of NTP era 0)",
    },
    "outside": "FQDN / IPv6 node ids, UE IPv6 addresses, symbolic UE addresses (they pass through text formatting), more than two requests per run",
    "assumptions": PFCP_ASSUME + ["the server's start instant is set by the harness (recoveryTime field) so that engine and native replay agree; time.Now() in the engine is a different instant, so a per-response time.Now() is detected"],
}

CHECKS["C06"] = {
    "engine_only_labels": ["C06.stop.timers-stopped", "C06.stop.goroutines-ended"],
    "jobs": {
        "quick": [{"pkg": "internal/pfcp", "entries": ["ZZ_C06_*"], "witnesses": 3, "max_paths": 400000, "budget_s": 900}],
        "thorough": [{"pkg": "internal/pfcp", "entries": ["ZZ_C06_*"], "witnesses": 6, "max_paths": 4000000, "budget_s": 3000}],
    },
    "covers": {"all": ["ZZ_C06_UnansweredThenAnswerable:C06.unanswered.done", "ZZ_C06_Loop:C06.done", "ZZ_C06_Loop:C06.dup", "ZZ_C06_Loop:C06.first", "ZZ_C06_Loop:C06.expiry", "ZZ_C06_Loop:C06.same-key",
                       "ZZ_C06_Retention:C06.retention.done"]},
    "bounds": {
        "quick": "the real event loop (PfcpServer.main + receiver as coroutines) fed with 3 events after a 3-request prefix; two request templates with kind in {Heartbeat, Association Setup, Establishment, Deletion, Establishment without Node ID}, source one of two peers, 24-bit symbolic sequence numbers (equal or different); each event is a copy of template 0/1 or the retention-timer expiry of its key, in every order; retention value checked for MaxRetrans 0..255 x 3 timeouts; plus one fixed scenario with symbolic sequence numbers and sender: an Establishment naming a node that is not associated yet (unanswered, but seen), the node's Association Setup, 1..2 duplicates of the Establishment (must be ignored), the retention timer really firing (zzFireTimer), and the same octets once more (now executed); requests come from peer A, peer B or a second endpoint on A's host (same IP, other port); expiries are the real retention timers firing (zzFireTimer), the harness never spells a transaction key itself",
        "thorough": "same with 4 events",
    },
    "outside": "more than 4 events / 2 distinct keys; real time (expiry is injected through NotifyTransTimeout, the entry point the timer callback uses); pre-emptive interleavings (the loop is single threaded; events are serialised by its select)",
    "assumptions": PFCP_ASSUME + ["goroutines are cooperative coroutines; the loop is run to quiescence after each injected event, which enumerates exactly the merges of the receive and timeout queues"],
}


CHECKS["C09"] = {
    "jobs": {
        "quick": [{"pkg": "internal/pfcp", "entries": ["ZZ_C09_*"], "witnesses": 3, "max_paths": 400000, "budget_s": 900}],
        "thorough": [{"pkg": "internal/pfcp", "entries": ["ZZ_C09_*"], "witnesses": 6, "max_paths": 4000000, "budget_s": 3000}],
    },
    "covers": {"all": ["ZZ_C09_FirstWriteFails:C09.writefail.done", "ZZ_C09_Crossed:C09.crossed.timeout-first", "ZZ_C09_Crossed:C09.crossed.response-first", "ZZ_C09_Loop:C09.done", "ZZ_C09_Loop:C09.retry", "ZZ_C09_Loop:C09.abandon", "ZZ_C09_Loop:C09.response.matched",
                       "ZZ_C09_Loop:C09.response.unmatched", "ZZ_C09_Loop:C09.expiry.dead"]},
    "bounds": {
        "quick": "the real event loop; transmit counter symbolic over the whole 32-bit range (so that a run can sit on either side of, or cross, the 2^24 and the 2^32 boundary), retry limit 0..3, 1..2 Session Report Requests for two sessions of two peers, then 3 events each a retransmission-timer expiry of either request or a Session Report Response from either peer with a symbolic 24-bit sequence number, in every order; plus the crossing of a response with the expiry of the same request's timer: the timer really fires (zzFireTimer), the response arrives too, and the two case bodies of the loop's select run in either order (the harness plays the select so that both orders replay natively), after 0..1 earlier retransmissions, retry limit 0..3; responses come from peer A, peer B or a second endpoint on A's host; expiries are the real timers firing; a request whose first transmission fails at the socket (destination 192.0.2.9), retry limit 0..2: timer armed, retried, abandoned, released",
        "thorough": "same with 4 events",
    },
    "outside": "more than 2 outstanding requests; real timers (an expiry is injected only for a transaction whose timer the code armed)",
    "assumptions": PFCP_ASSUME,
}

NL_OV = {
    "/root/go/pkg/mod/github.com/khirono/go-nl@v1.0.5/client.go": "overlays/go-nl/client.go",
    "/root/go/pkg/mod/github.com/khirono/go-nl@v1.0.5/request.go": "overlays/go-nl/request.go",
}

FWD_ASSUME = [
    "netlink round trip replaced at nl.(*Client).Do by a hook (overlay of go-nl client.go/request.go, shared by engine and native replay); everything above it - go-gtp5gnl request assembly, go-nl attribute encoding, go-gtp5gnl decoding - is executed for real",
    "amd64 byte order (NativeEndian = little endian)",
    "golden attribute type/nesting/width table spec/netlink_widths.json (captured once from the pinned tree; kernel sources are not available offline)",
    "logrus calls are no-ops; fmt/pkg-errors formatting is an intrinsic",
]

CHECKS["C02"] = {
    "dep_overlays": NL_OV, "extra_pkgs": ["internal/forwarder/perio"],
    "jobs": {
        "quick": [{"pkg": "internal/forwarder", "entries": ["ZZ_C02_*"], "witnesses": 3, "max_paths": 200000}],
        "thorough": [{"pkg": "internal/forwarder", "entries": ["ZZ_C02_*"], "witnesses": 6, "max_paths": 2000000, "budget_s": 3000}],
    },
    "covers": {"all": ["ZZ_C02_CreatePDR:C02.pdr.done", "ZZ_C02_UpdatePDR:C02.pdr.done", "ZZ_C02_RemovePDR:C02.rmpdr.done",
                       "ZZ_C02_CreatePDR:C02.fd.uplink", "ZZ_C02_CreatePDR:C02.fd.downlink",
                       "ZZ_C02_CreateFAR:C02.far.done", "ZZ_C02_UpdateFAR:C02.far.done", "ZZ_C02_RemoveFAR:C02.rmfar.done",
                       "ZZ_C02_UpdateFAR:C02.far.update-of-buffering-far"]},
    "bounds": {"quick": "Create/Update/Remove PDR and FAR with every IE payload byte, the SEID and the link index symbolic; PDR: 3 presence profiles (maximal with 2 QER ids, 2 URR ids, 2 SDF filters one of which carries a concrete flow description while the other may carry ToS traffic class, SPI and flow label (each present or absent, symbolic octets) in front of its filter id; minimal; typical) x 6 permutations of 4 child blocks x PDI children plain/reversed; FAR: 3 profiles (Apply Action 1/2 octets, outer header creation GTP-U or UDP, forwarding policy, SMReq flags, BAR id) x 6 permutations; Update FAR both against a kernel that does not know the FAR and against one where it is buffering with a related PDR and QER (so that the buffer-release lookups run before the update request, which must still address the FAR named in the IE); PDR profiles 4 and 5: two SDF filters both without flow description, and two with the same flow description text and different ids",
               "thorough": "24 permutations, plus all 64x27 PDR and 9x16 FAR presence subsets in canonical order"},
    "outside": "IPv6 variants, IEs the driver ignores (Network Instance, Application ID, Ethernet filters), IE lengths other than nominal (malformed input is C07), symbolic flow descriptions (C16)",
    "assumptions": FWD_ASSUME,
}

CHECKS["C03"] = {
    "dep_overlays": NL_OV, "extra_pkgs": ["internal/forwarder/perio"],
    "jobs": {
        "quick": [{"pkg": "internal/forwarder", "entries": ["ZZ_C03_*"], "witnesses": 3, "max_paths": 200000}],
        "thorough": [{"pkg": "internal/forwarder", "entries": ["ZZ_C03_*"], "witnesses": 6, "max_paths": 3000000, "budget_s": 3000}],
    },
    "covers": {"all": ["ZZ_C03_URRPeriod:C03.urr.period.done", "ZZ_C03_CreateQER:C03.qer.done", "ZZ_C03_UpdateQER:C03.qer.done", "ZZ_C03_CreateURR:C03.urr.done", "ZZ_C03_CreateURR:C03.urr.perio",
                       "ZZ_C03_CreateURR:C03.urr.nonperio", "ZZ_C03_CreateURR:C03.urr.perio-without-period", "ZZ_C03_UpdateURR:C03.urr.update.done", "ZZ_C03_RemoveURR:C03.rmurr.done",
                       "ZZ_C03_CreateBAR:C03.bar.done", "ZZ_C03_UpdateBAR:C03.bar.done", "ZZ_C03_RemoveQERBAR:C03.rm.done"]},
    "bounds": {
        "quick": "Create/Update QER, URR, BAR and the removals with every IE payload byte, the SEID and the link index symbolic (40-bit rates, 64-bit volumes, flag octets, 32-bit periods >= 1 s); the Measurement Period attribute value for the concrete periods 1, 4, 5, 10, 60, 3600, 86400 and 2^32-1 s on Create and Update URR (must be the period in s, ms, us or ns without wrap-around); 3 presence profiles per rule kind (BAR: all 4 subsets), including a URR that asks for periodic reporting without a Measurement Period (must be refused: nothing registered, nothing sent to the kernel); child order: every rotation, plain and reversed",
        "thorough": "all 2^7 QER and 2^6 URR presence subsets, Reporting Triggers of 2 and 3 octets, all 7x7 non-empty threshold/quota flag subsets; same orders",
    },
    "outside": "duration thresholds, time quota, event-based IEs (not supported by the driver); IE lengths other than nominal (C07)",
    "assumptions": FWD_ASSUME + ["spare bits of Gate Status, QFI, RQI, PPI, Measurement Method are zero (well-formed IEs)"],
}

FWD_MODELS = {
    "net.ParseCIDR": "github.com/free5gc/go-upf/internal/forwarder.zzModelParseCIDR",
    "net.ParseIP": "github.com/free5gc/go-upf/internal/forwarder.zzModelParseIP",
}

CHECKS["C16"] = {
    "dep_overlays": NL_OV, "extra_pkgs": ["internal/forwarder/perio"], "models": FWD_MODELS,
    "jobs": {
        "quick": [{"pkg": "internal/forwarder", "entries": ["ZZ_C16_*"], "witnesses": 6, "max_paths": 300000, "budget_s": 900}],
        "thorough": [{"pkg": "internal/forwarder", "entries": ["ZZ_C16_*"], "witnesses": 12, "max_paths": 3000000, "budget_s": 3000}],
    },
    "covers": {"all": ["ZZ_C16_Templates:C16.translated", "ZZ_C16_Templates:C16.rejected", "ZZ_C16_NearMiss:C16.nearmiss.done", "ZZ_C16_Bytes:C16.bytes.done",
                       "ZZ_C16_ViaPDI:C16.pdi.done", "ZZ_C16_Twice:C16.twice.done", "ZZ_C16_Tokens:C16.tokens.done", "ZZ_C16_Tokens:C16.tokens.cut", "ZZ_C16_Tokens:C16.tokens.missing", "ZZ_C16_Tokens:C16.tokens.exchanged"]},
    "bounds": {
        "quick": "24 rule templates (keywords fixed, every decimal digit symbolic): both directions, 'ip' or 1-3 protocol digits, addresses any/assigned/host/prefix with 1-3 digits per octet and 1-2 prefix digits, port lists of 0-2 items with 1-5 digits each, single/multiple blanks and tabs, each for uplink and downlink; near-miss keywords of 1-4 symbolic printable bytes at each of 4 keyword positions; arbitrary ASCII strings of <= 6 bytes; token-level damage (5 templates that between them hold every kind of word: the text cut after k words for every k, any one word missing, or any two neighbouring words exchanged) - rejected unless only a port list is gone, never a fault; the rule through newPdi with the SDF Filter IE before or after the Source Interface IE, for Access and Core; the same rule translated 2-3 times in a row on one driver object with a symbolic direction each time and optionally another rule in between (no state carried from one translation to the next)",
        "thorough": "plus all pairs of digit counts for two octets and the prefix length, two 8-item port lists, arbitrary strings of <= 8 bytes",
    },
    "outside": "IPv6 addresses, digit-count combinations not listed, non-ASCII bytes, free strings longer than 8 bytes; 'deny' rules (the driver supports permit only)",
    "assumptions": FWD_ASSUME + ["net.ParseCIDR/net.ParseIP replaced in the engine by Go-source models (harness/internal/forwarder/zz_models.go) when their argument is symbolic; native replay uses the real functions (differential test on every witness)"],
}

CHECKS["C15"] = {
    "engine_only_labels": ["C15.close.no-goroutine-left", "C15.close.all-tickers-stopped", "C15.tickers.one-per-nonempty-period", "C15.tickers.stopped-when-empty"],
    "dep_overlays": NL_OV, "extra_pkgs": ["internal/forwarder/perio"],
    "jobs": {
        "quick": [{"pkg": "internal/forwarder/perio", "entries": ["ZZ_C15_*"], "witnesses": 3, "max_paths": 400000, "budget_s": 900},
                  {"pkg": "internal/forwarder", "entries": ["ZZ_C15_*"], "witnesses": 3, "max_paths": 100000, "budget_s": 600}],
        "thorough": [{"pkg": "internal/forwarder/perio", "entries": ["ZZ_C15_*"], "witnesses": 6, "max_paths": 4000000, "budget_s": 3000},
                     {"pkg": "internal/forwarder", "entries": ["ZZ_C15_*"], "witnesses": 3, "max_paths": 100000, "budget_s": 600}],
    },
    "covers": {"all": ["ZZ_C15_RemoveUnregisters:C15.remove.done", "ZZ_C15_Sets:C15.done", "ZZ_C15_Sets:C15.tick.live", "ZZ_C15_Sets:C15.tick.stale", "ZZ_C15_Sets:C15.close", "ZZ_C15_Batch:C15.batch.done"]},
    "bounds": {"quick": "the real perio.Server.Serve and ticker goroutines as coroutines; 5 events, each ADD (3 (SEID,URR) pairs x 2 periods), DEL (any pair, registered or not), a tick of either period (live or stale) or CLOSE, in every order; batching: psQueryURR/queryMultiURR with the real per-message limit (56) at 1, 55, 56, 57, 112, 113 URRs over 3 SEIDs (concrete ids; every request decoded and answered by the simulated kernel); Gtp5g.RemoveURR with the kernel answering a report, nothing, or ENOENT: the DEL event is posted in every case",
               "thorough": "same with 6 events"},
    "outside": "real tickers (ticks are injected as the TIMEOUT events the ticker goroutine sends); more than 3 URRs / 2 periods in the set harness; a URR registered under two periods at once (excluded by the statement)",
    "assumptions": FWD_ASSUME + ["goroutines are cooperative coroutines; Serve runs to quiescence after every injected event"],
}

CHECKS["C13"] = {
    "dep_overlays": NL_OV, "extra_pkgs": ["internal/forwarder/perio"],
    "jobs": {
        "quick": [{"pkg": "internal/pfcp", "entries": ["ZZ_C13_*"], "witnesses": 3, "max_paths": 400000, "budget_s": 900},
                  {"pkg": "internal/forwarder", "entries": ["ZZ_C13_*"], "witnesses": 3, "max_paths": 400000, "budget_s": 900}],
        "thorough": [{"pkg": "internal/pfcp", "entries": ["ZZ_C13_*"], "witnesses": 6, "max_paths": 4000000, "budget_s": 3000},
                     {"pkg": "internal/forwarder", "entries": ["ZZ_C13_*"], "witnesses": 6, "max_paths": 4000000, "budget_s": 3000}],
    },
    "covers": {"all": ["ZZ_C13_ReuseTwo:C13.reuse-two.done", "ZZ_C13_Queue:C13.queue.done", "ZZ_C13_Queue:C13.queue.overflow-dropped", "ZZ_C13_Queue:C13.dldr", "ZZ_C13_Ended:C13.ended.done", "ZZ_C13_Capacity:C13.capacity.done", "ZZ_C13_Unknown:C13.unknown.done", "ZZ_C13_SharedBuffer:C13.shared.done",
                       "ZZ_C13_Notify:C13.notify.done", "ZZ_C13_Release:C13.release.done", "ZZ_C13_Release:C13.release.forw", "ZZ_C13_Release:C13.release.drop",
                       "ZZ_C13_Release:C13.release.keep", "ZZ_C13_Release:C13.release.not-buffering", "ZZ_C13_Release:C13.release.forw-no-tunnel",
                       "ZZ_C13_Release:C13.release.action-before-farid"]},
    "bounds": {"quick": "PFCP side: two sessions created with the real LocalNode.NewSess(rSeid, qlen), qlen in {1,2}; qlen+1 buffer notifications each for session 1 or 2 with symbolic PDR id, action word and payload (empty or 2 bytes); then the queues are drained through PopBufPkt; session end (deletion / re-association) and SEID reuse, after which the new session (and a session of another node) buffers a packet of its own under the same or another PDR id and must get back exactly that; unknown SEIDs; one concrete run at the production capacity (513 packets into BUFFQ_LEN=512). Data-plane side: BUFFER netlink message with symbolic SEID, PDR, action, 1..4 payload bytes in both attribute orders; Update FAR with symbolic new action (both IE orders) against a simulated kernel whose FAR record has a symbolic current action, 1..2 related PDRs, outer header creation present/absent (symbolic TEID, two peers), 0..2 QERs with symbolic QFIs, with held packets for related PDRs, an unrelated PDR and another session; the update request itself must address (SEID, FAR id) of the IE and every lookup the session's own SEID; three sessions, two deleted in either order, two new ones established (distinct SEIDs, a buffered packet stays with its session)",
               "thorough": "same with qlen in {1,2,3}"},
    "outside": "histories interleaving several FAR updates; more than two related PDRs; the integrated run PfcpServer + Gtp5g in one state (the two sides meet at report.Handler, whose two methods are the harness boundary)",
    "assumptions": PFCP_ASSUME + FWD_ASSUME,
}

CHECKS["C10"] = {
    "dep_overlays": NL_OV, "extra_pkgs": ["internal/forwarder/perio"],
    "jobs": {
        "quick": [{"pkg": "internal/pfcp", "entries": ["ZZ_C10_*"], "witnesses": 3, "max_paths": 400000, "budget_s": 900},
                  {"pkg": "internal/forwarder", "entries": ["ZZ_C10_*"], "witnesses": 3, "max_paths": 400000, "budget_s": 900}],
        "thorough": [{"pkg": "internal/pfcp", "entries": ["ZZ_C10_*"], "witnesses": 6, "max_paths": 4000000, "budget_s": 3000},
                     {"pkg": "internal/forwarder", "entries": ["ZZ_C10_*"], "witnesses": 6, "max_paths": 4000000, "budget_s": 3000}],
    },
    "covers": {"all": ["ZZ_C10_AfterTakeover:C10.takeover.done", "ZZ_C10_Notify:C10.notify.done", "ZZ_C10_Notify:C10.notify.unknown-session", "ZZ_C10_Notify:C10.notify.unknown-urr-dropped", "ZZ_C10_ModRsp:C10.rsp.done",
                       "ZZ_C10_Configured:C10.configured.done", "ZZ_C10_AfterHistory:C10.history.done", "ZZ_C10_AfterHistory:C10.history.recreated", "ZZ_C10_AfterHistory:C10.history.urr-gone",
                       "ZZ_C10_Multicast:C10.mcast.done", "ZZ_C10_Results:C10.result.done", "ZZ_C10_Multi:C10.multi.done", "ZZ_C10_Multi:C10.multi.split"]},
    "bounds": {"quick": "data-plane side: REPORT multicast with 1..2 reports over two distinct symbolic SEIDs, symbolic URR ids and six 64-bit counters each, every one of the 18 single-cause trigger words, two concrete instant pairs; query/update/remove results with a symbolic trigger word; multi-URR (periodic) query of 1, 3, limit, limit+1 and 2*limit+2 (SEID, URR) pairs over three sessions (limit = gtp5gnl.MaxNetlinkUsageReportNum, so sessions straddle netlink request boundaries), every pair answered once with counters that encode the pair and one solver-chosen pair with symbolic counters. PFCP side: a session of either peer with two URRs whose DURAT/VOLUM/EVENT/MNOP settings are symbolic Booleans, batches of 1..2 reports naming arbitrary (known or unknown) URR ids with a symbolic 22-bit trigger word and symbolic counters, delivered for an arbitrary SEID; query / removal / deletion results in the Modification / Deletion response; takeover: 0..2 reports, a Modification from node B naming node B, one more report - which must go to B; after a history of 3 requests on one URR (query, update, remove, create again, remove its PDR; each query/update/removal answered by the data plane with 0 or 1 report) two reports for the URR, if it exists then, are both delivered; a URR configured through the handlers - Create URR with symbolic DURAT/VOLUM and an optional Measurement Information IE, then 0-1 (thorough 0-2) Update URRs each with or without a Measurement Method / Measurement Information IE - reports with the IE set of its current configuration",
               "thorough": "batches of up to 3 reports; histories of 4 requests"},
    "outside": "symbolic instants (the NTP conversion divides by 10^9; two concrete instants incl. the last second of NTP era 0); more than 3 reports per batch",
    "assumptions": PFCP_ASSUME + FWD_ASSUME,
}

CHECKS["C20"] = {
    "dep_overlays": NL_OV, "extra_pkgs": ["internal/forwarder/perio"],
    "sym_overlays": {"/root/go/pkg/mod/github.com/hashicorp/go-version@v1.6.0/version.go": "overlays/go-version/version.go"},
    "no_init_pkgs": ["github.com/hashicorp/go-version"],
    "models": dict(FWD_MODELS, **{
        "github.com/hashicorp/go-version.NewVersion": "github.com/hashicorp/go-version.zzModelNewVersion",
        "(*github.com/hashicorp/go-version.Version).Compare": "github.com/hashicorp/go-version.zzModelCompare",
        "github.com/free5gc/go-upf/internal/forwarder.OpenGtp5g": "github.com/free5gc/go-upf/internal/forwarder.zzModelOpenGtp5g",
        "os.ReadFile": "github.com/free5gc/go-upf/pkg/factory.zzModelReadFile",
        "gopkg.in/yaml.v2.Unmarshal": "github.com/free5gc/go-upf/pkg/factory.zzModelUnmarshal",
        "github.com/asaskevich/govalidator.ValidateStruct": "github.com/free5gc/go-upf/pkg/factory.zzModelValidateStruct",
    }),
    "no_native_entries": ["ZZ_C20_NewDriver", "ZZ_C20_ReadConfig"],
    "pregen": "gen_c20",
    "jobs": {
        "quick": [{"pkg": "internal/forwarder", "entries": ["ZZ_C20_*"], "witnesses": 8, "max_paths": 100000},
                  {"pkg": "pkg/factory", "entries": ["ZZ_C20_*"], "witnesses": 16000, "max_paths": 100000}],
        "thorough": [{"pkg": "internal/forwarder", "entries": ["ZZ_C20_*"], "witnesses": 24, "max_paths": 100000},
                     {"pkg": "pkg/factory", "entries": ["ZZ_C20_*"], "witnesses": 20000, "max_paths": 1000000}],
    },
    "covers": {"all": ["ZZ_C20_Version:C20.version.accepted", "ZZ_C20_Version:C20.version.rejected", "ZZ_C20_VersionFaults:C20.version.faults.done",
                       "ZZ_C20_NewDriver:C20.driver.started", "ZZ_C20_NewDriver:C20.driver.rejected", "ZZ_C20_NewDriver:C20.driver.open-failed",
                       "ZZ_C20_ReadConfig:C20.readconfig.accepted", "ZZ_C20_ReadConfig:C20.readconfig.rejected",
                       "ZZ_C20_Document:C20.document.accepted", "ZZ_C20_Document:C20.document.rejected"]},
    "bounds": {"quick": "version strings [v]X.Y.Z with 1-2 symbolic digits per field (16 templates) through the real Gtp5g.checkVersion / gtp5gnl.GetVersion / DecodeVersion and go-version's LessThan / GreaterThanOrEqual, oracle = the property's window hard-wired; kernel faults; NewDriver over 5 configuration shapes x open success/failure with a symbolic MTU; ReadConfig with a symbolic failure Boolean per stage; configuration documents: a valid reference document with every choice of up to 2 faults among 17 fields (version, pfcp, pfcp.addr, nodeID, retransTimeout, maxRetrans, gtpu, forwarder, ifList, its addr/type/mtu, dnnList, its dnn/cidr, logger, level) x 8 kinds (deleted, emptied, invalid or out of range, mistyped, another valid value, near miss with something appended to a valid value, near miss with something in front of it, a valid value padded with a blank; for the node id: an IPv6 literal) - and, when a fault sits in an interface or DNN entry, that entry either alone or second in its list behind an entry without fault - through ReadConfig with the validator model GENERATED from the struct tags of the working tree; oracle = the property's definition of a valid configuration written out by hand (zzSpecAccepts); every explored document (about 13 400) is replayed natively as a YAML file through the real yaml.v2, govalidator and ReadConfig",
               "thorough": "same with up to 3 faults per document (88 486 documents, 20 000 of them replayed natively)"},
    "outside": "PARTIAL: configuration documents other than fault-perturbations of the one reference document (arbitrary YAML, unknown keys, several list entries, anchors/merges); validator tags outside the modelled vocabulary required/optional/in/host/cidr/ip/ipv4/dns/matches(small regex subset) (the check is then inconclusive, exit 2); node ids that are host names needing DNS; pre-release / metadata version suffixes; versions with more than 2 digits per field or other than 3 fields",
    "assumptions": FWD_ASSUME + ["go-version NewVersion/Compare replaced in the engine by Go-source models (overlays/go-version/version.go = the original file plus the models); the version harness is replayed natively against the real library",
                                 "OpenGtp5g, os.ReadFile, yaml.Unmarshal, govalidator.ValidateStruct replaced in the engine by recording/symbolic models; ZZ_C20_NewDriver and ZZ_C20_ReadConfig have no native replay (the real functions need the kernel module / the file system)",
                                 "ZZ_C20_Document: govalidator.ValidateStruct = model generated by tools/gen_c20.py from the struct tags read with go/types on every run (semantics of govalidator's ValidateStruct/typeCheck/checkRequired/isEmptyValue for the vocabulary above; string validators by a classification table of the 8 candidate strings); yaml.Unmarshal = zzDoc.decode (absent/empty = zero value, mistyped or overflowing scalar = error). Both models are cross-validated on every run: each explored document is rendered to a file and run through the real libraries natively, verdicts and assertion outcomes compared"],
}

CHECKS["C07"] = {
    "dep_overlays": NL_OV, "extra_pkgs": ["internal/forwarder", "internal/forwarder/perio"], "models": FWD_MODELS,
    "jobs": {
        "quick": [{"pkg": "internal/pfcp", "entries": ["ZZ_C07_*"], "witnesses": 4, "max_paths": 400000, "budget_s": 300, "max_concretize": 1024},
                  {"pkg": "internal/forwarder", "entries": ["ZZ_C07_*"], "witnesses": 4, "max_paths": 100000, "budget_s": 300}],
        "thorough": [{"pkg": "internal/pfcp", "entries": ["ZZ_C07_*"], "witnesses": 8, "max_paths": 4000000, "budget_s": 3000, "max_concretize": 4096},
                     {"pkg": "internal/forwarder", "entries": ["ZZ_C07_*"], "witnesses": 8, "max_paths": 100000, "budget_s": 600}],
    },
    "covers": {"all": ["ZZ_C07_HeaderSEIDGtp5g:C07.seid.done", "ZZ_C07_HeaderSEIDEmpty:C07.seid.done", "ZZ_C07_SweepEmpty:C07.sweep.done", "ZZ_C07_SweepGtp5g:C07.sweep.done", "ZZ_C07_RawAnyEmpty:C07.raw.done", "ZZ_C07_RawAnyGtp5g:C07.raw.done",
                       "ZZ_C07_RawHandledEmpty:C07.raw.done", "ZZ_C07_RawHandledGtp5g:C07.raw.done",
                       "ZZ_C07_MissingEmpty:C07.missing.done", "ZZ_C07_MissingGtp5g:C07.missing.done",
                       "ZZ_C07_FlowDescTokens:C07.flowdesc.done", "ZZ_C07_Churn:C07.churn.done"]},
    "bounds": {"quick": "(c) header SEID through the loop: Modification, Deletion and a Session Report Response to an outstanding report with an unconstrained 64-bit header SEID from either peer, both drivers. (a) envelope: after a valid prefix (association, a bystander session, a second session created and deleted; for the dispatched-type entries also a fresh server with nothing associated) ONE datagram of n fully symbolic octets from the associated or from an unknown peer goes through the real receive path (rcvCh -> go-pfcp message.Parse with its header, message and IE decoders -> transactions -> dispatcher -> handlers -> driver): every n in 0..12 with all 256 message types, and every n in 8..14 with the message type fixed to one of the six that go-upf dispatches (1, 5, 50, 52, 54, 57); afterwards a Heartbeat from the other peer must be answered with the right type and sequence number and the bystander must be intact unless the datagram is a Modification/Deletion carrying its SEID or an Association Setup. "
                        "(d) missing IEs: a complete Establishment (Node ID, CP F-SEID, Create FAR with Forwarding Parameters, Create QER/URR/BAR, Create PDR with PDI incl. SDF filter), a Modification (Update/Query/Create/Remove groups) after a complete establishment, and an Association Setup, from which the solver removes every choice of up to 2 nodes of the IE tree (top-level IEs, whole groups, children, nested groups and their children: 33 / 31 / 3 nodes), both drivers. "
                        "(b) IE payload sweep through the real event loop (PfcpServer.main + receiver as coroutines, marshalled datagrams) after an association and a bystander session: for each of 39 leaf IE types that go-upf or the gtp5g driver decodes (Node ID, F-SEID, and the children of Create/Update PDR, PDI, FAR, Forwarding Parameters, QER, URR, BAR) one IE with a symbolic payload of every length 0..nominal+2 inside an otherwise well-formed Establishment and a following Modification, with the no-op driver and with the gtp5g driver on the simulated kernel; afterwards a Heartbeat must be answered and the bystander intact. SDF Filter: flow-description octets ASCII; FD length field <= payload length or >= 256 (e) session churn: after an association, 5 well-formed requests out of {Establishment, Deletion of SEID 1/2/3, Association Setup again} in every order through the real loop with the no-op driver - each answered, establishments accepted, a Heartbeat answered afterwards. (f) flow-description text damaged at word level (cut after k words, one word missing, two neighbouring words exchanged; 5 templates with symbolic digits) in the SDF Filter of a Create PDR through the gtp5g driver on the simulated kernel",
               "thorough": "(d) up to 3 removed nodes; (a) every n in 0..16 with all message types, every n in 8..18 with a dispatched type, and for n <= 14 also the same octets delivered twice (retransmission of a possibly malformed request); (b) same with the SDF Filter FD length field unconstrained (every feasible value up to the buffer capacity is a path); (e) 7 requests"},
    "outside": "raw datagrams longer than the stated n (up to the 1500-octet maximum), and more than one raw datagram per history; several malformed IEs in one message beyond what fits in n octets; non-ASCII flow-description text; the kernel's UDP stack (datagrams enter at rcvCh, exactly as the receiver goroutine forwards them); header-SEID addressing is decided under C04 (ZZ_C04_ModifyHeader / DeleteHeader with an unconstrained 64-bit SEID); churn histories longer than 5 / 7 requests or with more than one peer",
    "assumptions": PFCP_ASSUME + FWD_ASSUME,
}
