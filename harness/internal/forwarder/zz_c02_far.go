//go:build verif

package forwarder

import (
	"syscall"

	"github.com/khirono/go-nl"
	"github.com/wmnsk/go-pfcp/ie"

	"github.com/free5gc/go-gtp5gnl"
)

type zzFARSpec struct {
	action   int // 0 absent, 1 one octet, 2 two octets
	fp       bool
	ohc      int // 0 none, 1 GTP-U/UDP/IPv4 (TEID + address), 2 UDP/IPv4 (address + port)
	policy   bool
	smflags  bool
	destIf   bool
	bar      bool
}

type zzFARIn struct {
	sp      zzFARSpec
	farid   []byte
	action  []byte
	ohc     []byte
	policy  []byte
	smflags []byte
	bar     []byte
	blocks  [][]*ie.IE
	fpKids  []*ie.IE
}

func zzMkFAR(sp zzFARSpec) *zzFARIn {
	in := &zzFARIn{sp: sp}
	in.farid = nondetBytes("farid", 4)
	b0 := []*ie.IE{ie.New(ie.FARID, in.farid)}
	var b1 []*ie.IE
	if sp.action > 0 {
		in.action = nondetBytes("applyaction", sp.action)
		b1 = append(b1, ie.New(ie.ApplyAction, in.action))
	}
	var fp []*ie.IE
	if sp.destIf {
		fp = append(fp, ie.New(ie.DestinationInterface, []byte{1}))
	}
	switch sp.ohc {
	case 1:
		in.ohc = append([]byte{0x01, 0x00}, nondetBytes("ohc", 8)...)
		fp = append(fp, ie.New(ie.OuterHeaderCreation, in.ohc))
	case 2:
		in.ohc = append([]byte{0x04, 0x00}, nondetBytes("ohc", 6)...)
		fp = append(fp, ie.New(ie.OuterHeaderCreation, in.ohc))
	}
	if sp.policy {
		in.policy = nondetBytes("policy", 3)
		for _, c := range in.policy {
			zzAssume(c != 0) // an identifier does not contain NUL
		}
		fp = append(fp, ie.New(ie.ForwardingPolicy, append([]byte{3}, in.policy...)))
	}
	if sp.smflags {
		in.smflags = nondetBytes("smreqflags", 1)
		fp = append(fp, ie.New(ie.PFCPSMReqFlags, in.smflags))
	}
	in.fpKids = fp
	var b3 []*ie.IE
	if sp.bar {
		in.bar = nondetBytes("barid", 1)
		b3 = append(b3, ie.New(ie.BARID, in.bar))
	}
	in.blocks = [][]*ie.IE{b0, b1, nil, b3}
	return in
}

func (in *zzFARIn) group(typ uint16, fptyp uint16, perm []int, revFP bool) *ie.IE {
	var kids []*ie.IE
	fp := in.fpKids
	if revFP {
		fp = nil
		for i := len(in.fpKids) - 1; i >= 0; i-- {
			fp = append(fp, in.fpKids[i])
		}
	}
	for _, k := range perm {
		if k == 2 {
			if in.sp.fp {
				kids = append(kids, ie.NewGroupedIE(fptyp, fp...))
			}
			continue
		}
		kids = append(kids, in.blocks[k]...)
	}
	return ie.NewGroupedIE(typ, kids...)
}

func (in *zzFARIn) check(attrs []byte, seid uint64, link uint32, tag string) {
	sp := in.sp
	zzWalk("FAR", "", attrs, tag)
	far, err := gtp5gnl.DecodeFAR(attrs)
	zzAssert("C02.far.decodes."+tag, err == nil && far != nil)
	if err != nil || far == nil {
		return
	}
	zzAssert("C02.far.id."+tag, far.ID == zzBE32(in.farid))
	zzAssert("C02.far.seid."+tag, far.SEID != nil && *far.SEID == seid)
	l, okl := zzFindAttr(attrs, gtp5gnl.LINK, 0)
	zzAssert("C02.far.link."+tag, okl && len(l) == 4 && zzLE32(l) == link)
	zzAssert("C02.far.single-id-attrs."+tag, zzCountAttr(attrs, gtp5gnl.FAR_ID) == 1 && zzCountAttr(attrs, gtp5gnl.FAR_SEID) == 1)
	// apply action: the IE's octets as a little-endian flag word (octet 5 = bits 0..7)
	zzAssert("C02.far.action.presence."+tag, (zzCountAttr(attrs, gtp5gnl.FAR_APPLY_ACTION) == 1) == (sp.action > 0))
	switch sp.action {
	case 1:
		zzAssert("C02.far.action."+tag, far.Action == uint16(in.action[0]))
	case 2:
		zzAssert("C02.far.action."+tag, far.Action == uint16(in.action[0])|uint16(in.action[1])<<8)
	}
	zzAssert("C02.far.barid.presence."+tag, (far.BARID != nil) == sp.bar)
	if sp.bar && far.BARID != nil {
		zzAssert("C02.far.barid."+tag, *far.BARID == in.bar[0])
	}
	zzAssert("C02.far.param.presence."+tag, (far.Param != nil) == (sp.fp && len(in.fpKids) > 0 && (sp.ohc > 0 || sp.policy || sp.smflags)))
	if far.Param == nil {
		return
	}
	pr := far.Param
	zzAssert("C02.far.ohc.presence."+tag, (pr.Creation != nil) == (sp.ohc > 0))
	if pr.Creation != nil {
		hc := pr.Creation
		switch sp.ohc {
		case 1:
			zzAssert("C02.far.ohc.desc."+tag, hc.Desc == 0x0100)
			zzAssert("C02.far.ohc.teid."+tag, hc.TEID == zzBE32(in.ohc[2:6]))
			zzAssert("C02.far.ohc.peer."+tag, zzIP4Eq(hc.PeerAddr, in.ohc[6:10]))
			zzAssert("C02.far.ohc.port-gtpu."+tag, hc.Port == 2152)
		case 2:
			zzAssert("C02.far.ohc.desc."+tag, hc.Desc == 0x0400)
			zzAssert("C02.far.ohc.peer."+tag, zzIP4Eq(hc.PeerAddr, in.ohc[2:6]))
			zzAssert("C02.far.ohc.port."+tag, hc.Port == zzBE16(in.ohc[6:8]))
			fpRaw, _ := zzFindAttr(attrs, gtp5gnl.FAR_FORWARDING_PARAMETER, 0)
			hcRaw, _ := zzFindAttr(fpRaw, gtp5gnl.FORWARDING_PARAMETER_OUTER_HEADER_CREATION, 0)
			zzAssert("C02.far.ohc.no-teid."+tag, zzCountAttr(hcRaw, gtp5gnl.OUTER_HEADER_CREATION_O_TEID) == 0)
		}
	}
	zzAssert("C02.far.policy.presence."+tag, (pr.Policy != nil) == sp.policy)
	if sp.policy && pr.Policy != nil {
		p := *pr.Policy
		zzAssert("C02.far.policy."+tag, len(p) == 3 && p[0] == in.policy[0] && p[1] == in.policy[1] && p[2] == in.policy[2])
	}
	fpRaw, _ := zzFindAttr(attrs, gtp5gnl.FAR_FORWARDING_PARAMETER, 0)
	zzAssert("C02.far.smflags.presence."+tag, (zzCountAttr(fpRaw, gtp5gnl.FORWARDING_PARAMETER_PFCPSM_REQ_FLAGS) == 1) == sp.smflags)
	if sp.smflags {
		f, ok := zzFindAttr(fpRaw, gtp5gnl.FORWARDING_PARAMETER_PFCPSM_REQ_FLAGS, 0)
		zzAssert("C02.far.smflags."+tag, ok && len(f) == 1 && f[0] == in.smflags[0])
	}
}

func zzFARProfile(p int) zzFARSpec {
	switch p {
	case 0:
		return zzFARSpec{action: 2, fp: true, ohc: 1, policy: true, smflags: true, destIf: true, bar: true}
	case 1:
		return zzFARSpec{}
	case 2:
		return zzFARSpec{action: 1, fp: true, ohc: 2, destIf: true}
	}
	q := p - 3
	sp := zzFARSpec{action: q % 3, ohc: (q / 3) % 3, policy: (q/9)&1 != 0, smflags: (q/9)&2 != 0, destIf: (q/9)&4 != 0, bar: (q/9)&8 != 0}
	sp.fp = sp.ohc > 0 || sp.policy || sp.smflags || sp.destIf
	return sp
}

var errZZNoEnt error = syscall.ENOENT

// the kernel's answer to GET_FAR while an Update FAR runs: "no such FAR" keeps applyAction out
// of the way (buffer release is C13)
func zzNoSuchFAR(k *zzKernel, r zzReq) ([]nl.Msg, error) {
	if len(r.b) > 0 && r.b[0] == gtp5gnl.CMD_GET_FAR {
		return nil, errZZNoEnt
	}
	return nil, nil
}

// zzBufferingFAR: the kernel knows the FAR as buffering, related to PDR 10 whose QER is 20 - so
// that an Update FAR with FORW/DROP walks the related PDRs and QERs (applyAction) BEFORE the update
// request is sent; the update must still address the FAR named in the IE.
func zzBufferingFAR(seid uint64) func(k *zzKernel, r zzReq) ([]nl.Msg, error) {
	return func(k *zzKernel, r zzReq) ([]nl.Msg, error) {
		if len(r.b) < 4 {
			return nil, nil
		}
		attrs := r.b[4:]
		switch r.b[0] {
		case gtp5gnl.CMD_GET_FAR:
			id, _ := zzFindAttr(attrs, gtp5gnl.FAR_ID, 0)
			return zzFARMsg(seid, zzLE32(id), &zzFARRec{action: 4, pdrs: []uint16{10}}), nil
		case gtp5gnl.CMD_GET_PDR:
			return zzPDRMsg(seid, 10, []uint32{20}), nil
		case gtp5gnl.CMD_GET_QER:
			return zzQERMsg(seid, 20, 9), nil
		}
		return nil, nil
	}
}

func zzC02FAR(nprofiles int, nperm int, update bool) {
	k := zzInstallKernel()
	k.reply = zzNoSuchFAR
	link := nondetU32("link")
	seid := nondetU64("seid")
	g := zzGtp5g(link)
	buffering := update && nondetBool("kernel-far-is-buffering")
	if buffering {
		k.reply = zzBufferingFAR(seid)
		g.bsnl.Handle(&zzBufHandler{q: make(map[uint64][][]byte)})
		zzCover("C02.far.update-of-buffering-far")
	}
	sp := zzFARProfile(nondetChoice("profile", nprofiles))
	in := zzMkFAR(sp)
	perm := zzPerm(4, nondetChoice("perm", nperm))
	rev := nondetChoice("fp-reversed", 2) == 1
	var err error
	op := "CreateFAR"
	if update {
		op = "UpdateFAR"
		err = g.UpdateFAR(seid, in.group(ie.UpdateFAR, ie.UpdateForwardingParameters, perm, rev))
	} else {
		err = g.CreateFAR(seid, in.group(ie.CreateFAR, ie.ForwardingParameters, perm, rev))
	}
	zzAssert("C02.far.accepted", err == nil)
	// an Update FAR with an Apply Action first asks the kernel for the FAR (GET_FAR); the rule itself is the last request
	n := len(k.reqs)
	zzAssert("C02.far.requests", n >= 1)
	if n < 1 {
		return
	}
	last := k.reqs[n-1]
	cmd, flags, _ := zzOp(op)
	zzAssert("C02.far.op", last.typ == zzFamilyID && last.flags == flags && len(last.b) >= 4 && last.b[0] == cmd)
	for i := 0; i < n-1; i++ {
		c := k.reqs[i].b[0]
		zzAssert("C02.far.only-lookups-before", update && (c == gtp5gnl.CMD_GET_FAR || (buffering && (c == gtp5gnl.CMD_GET_PDR || c == gtp5gnl.CMD_GET_QER))))
	}
	if len(last.b) < 4 {
		return
	}
	zzObserve("request", last.b)
	in.check(last.b[4:], seid, link, "far")
	zzCover("C02.far.done")
}

func zzC02RemoveFAR() {
	k := zzInstallKernel()
	link := nondetU32("link")
	seid := nondetU64("seid")
	g := zzGtp5g(link)
	id := nondetBytes("farid", 4)
	err := g.RemoveFAR(seid, ie.NewGroupedIE(ie.RemoveFAR, ie.New(ie.FARID, id)))
	zzAssert("C02.rmfar.accepted", err == nil)
	attrs, ok := zzOneReq(k, 0, "RemoveFAR", "rmfar")
	if !ok {
		return
	}
	zzWalk("FAR", "", attrs, "rmfar")
	far, err := gtp5gnl.DecodeFAR(attrs)
	zzAssert("C02.rmfar.decodes", err == nil)
	if err == nil {
		zzAssert("C02.rmfar.oid", far.ID == zzBE32(id) && far.SEID != nil && *far.SEID == seid)
	}
	zzCover("C02.rmfar.done")
}

func ZZ_C02_CreateFAR() { zzC02FAR(3, zzNPerm(), false) }
func ZZ_C02_UpdateFAR() { zzC02FAR(3, zzNPerm(), true) }
func ZZ_C02_RemoveFAR() { zzC02RemoveFAR() }

func ZZ_C02_FARSubsets() {
	if zzTier() == 0 {
		zzCover("C02.far.done")
		return
	}
	k := zzInstallKernel()
	link := nondetU32("link")
	seid := nondetU64("seid")
	g := zzGtp5g(link)
	sp := zzFARProfile(3 + nondetChoice("subset", 9*16))
	in := zzMkFAR(sp)
	err := g.CreateFAR(seid, in.group(ie.CreateFAR, ie.ForwardingParameters, []int{0, 1, 2, 3}, false))
	zzAssert("C02.far.accepted", err == nil)
	if attrs, ok := zzOneReq(k, 0, "CreateFAR", "far"); ok {
		in.check(attrs, seid, link, "far")
	}
	zzCover("C02.far.done")
}
