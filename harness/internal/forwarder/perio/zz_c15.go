//go:build verif

package perio

import (
	"sync"
	"time"

	"github.com/free5gc/go-upf/internal/report"
)

// C15: periodic reporting queries exactly the URRs currently registered.
// The real Serve loop and the real ticker goroutines run as coroutines; the harness feeds
// registrations, removals, ticks and close through the entry points production code uses and
// keeps a ghost registration map (DESIGN.md Appendix F.6).

type zzPair struct {
	seid uint64
	urr  uint32
}

var zzPairs = []zzPair{{1, 1}, {1, 2}, {2, 1}}
var zzPeriods = []time.Duration{1 * time.Second, 2 * time.Second}

type zzHandler struct {
	got []report.SessReport
}

func (h *zzHandler) NotifySessReport(sr report.SessReport) { h.got = append(h.got, sr) }
func (h *zzHandler) PopBufPkt(uint64, uint16) ([]byte, bool) { return nil, false }

type zzPerioWorld struct {
	s       *Server
	wg      sync.WaitGroup
	h       *zzHandler
	queries []map[uint64][]uint32
	reg     [3]int // ghost: period index + 1 of each pair, 0 = not registered
	closed  bool
}

func zzMkPerio() *zzPerioWorld {
	w := &zzPerioWorld{h: &zzHandler{}}
	// the real constructor (it also starts the Serve goroutine), then Handle - the order Gtp5g uses
	w.s, _ = OpenServer(&w.wg)
	w.s.Handle(w.h, func(q map[uint64][]uint32) (map[uint64][]report.USAReport, error) {
		cp := make(map[uint64][]uint32)
		out := make(map[uint64][]report.USAReport)
		for seid, ids := range q {
			cp[seid] = append([]uint32(nil), ids...)
			for _, id := range ids {
				out[seid] = append(out[seid], report.USAReport{URRID: id})
			}
		}
		w.queries = append(w.queries, cp)
		return out, nil
	})
	zzYield()
	return w
}

func (w *zzPerioWorld) groupSize(p int) int {
	n := 0
	for i := range zzPairs {
		if w.reg[i] == p+1 {
			n++
		}
	}
	return n
}

func (w *zzPerioWorld) checkTickers(tag string) {
	if zzGoroutines() < 0 {
		return // native replay: not observable
	}
	want := 0
	for p := range zzPeriods {
		if w.groupSize(p) > 0 {
			want++
		}
	}
	if w.closed {
		zzAssert("C15.close.no-goroutine-left."+tag, zzGoroutines() == 0)
		zzAssert("C15.close.all-tickers-stopped."+tag, zzTimersActive() == 0)
		return
	}
	// one Serve coroutine plus one ticker coroutine per non-empty period
	zzAssert("C15.tickers.one-per-nonempty-period."+tag, zzGoroutines() == 1+want)
	zzAssert("C15.tickers.stopped-when-empty."+tag, zzTimersActive() == want)
}

func (w *zzPerioWorld) step() {
	switch nondetChoice("event", 4) {
	case 0: // ADD
		i := nondetChoice("pair", len(zzPairs))
		p := nondetChoice("period", len(zzPeriods))
		zzAssume(w.reg[i] == 0) // each URR is registered at most once at a time
		w.s.AddPeriodReportTimer(zzPairs[i].seid, zzPairs[i].urr, zzPeriods[p])
		zzYield()
		w.reg[i] = p + 1
		w.checkTickers("add")
	case 1: // DEL (also of something not registered)
		i := nondetChoice("pair", len(zzPairs))
		w.s.DelPeriodReportTimer(zzPairs[i].seid, zzPairs[i].urr)
		zzYield()
		w.reg[i] = 0
		w.checkTickers("del")
	case 2: // a tick of period p arrives (possibly stale)
		p := nondetChoice("period", len(zzPeriods))
		nq, nr := len(w.queries), len(w.h.got)
		w.s.evtCh <- Event{eType: TYPE_PERIO_TIMEOUT, period: zzPeriods[p]}
		zzYield()
		n := w.groupSize(p)
		if n == 0 {
			zzAssert("C15.tick.stale-tick-queries-nothing", len(w.queries) == nq && len(w.h.got) == nr)
			zzCover("C15.tick.stale")
			return
		}
		zzAssert("C15.tick.one-query", len(w.queries) == nq+1)
		if len(w.queries) != nq+1 {
			return
		}
		q := w.queries[nq]
		// exactly the registered set
		total := 0
		for _, ids := range q {
			total += len(ids)
		}
		zzAssert("C15.tick.query-size", total == n)
		for i, pr := range zzPairs {
			found := 0
			for _, id := range q[pr.seid] {
				if id == pr.urr {
					found++
				}
			}
			if w.reg[i] == p+1 {
				zzAssert("C15.tick.registered-urr-queried-once", found == 1)
			} else {
				zzAssert("C15.tick.unregistered-urr-not-queried", found == 0)
			}
		}
		// each report delivered once, marked periodic, under its own SEID
		delivered := 0
		for _, sr := range w.h.got[nr:] {
			for _, r := range sr.Reports {
				u, ok := r.(report.USAReport)
				zzAssert("C15.tick.report-type", ok)
				if !ok {
					continue
				}
				delivered++
				zzAssert("C15.tick.report-marked-periodic", u.USARTrigger.Flags&report.USAR_TRIG_PERIO != 0)
				match := false
				for i, pr := range zzPairs {
					if w.reg[i] == p+1 && pr.seid == sr.SEID && pr.urr == u.URRID {
						match = true
					}
				}
				zzAssert("C15.tick.report-under-own-seid", match)
			}
		}
		zzAssert("C15.tick.each-report-delivered-once", delivered == n)
		zzCover("C15.tick.live")
	case 3: // CLOSE
		w.s.Close()
		zzYield()
		w.closed = true
		for i := range w.reg {
			w.reg[i] = 0
		}
		w.checkTickers("close")
		zzCover("C15.close")
	}
}

func zzC15(depth int) {
	w := zzMkPerio()
	for i := 0; i < depth && !w.closed; i++ {
		w.step()
	}
	if !w.closed {
		w.s.Close()
		zzYield()
		w.closed = true
		for i := range w.reg {
			w.reg[i] = 0
		}
		w.checkTickers("final-close")
	}
	zzCover("C15.done")
}

func ZZ_C15_Sets() { zzC15(5 + zzTier()) }
