#!/usr/bin/env python3
"""Orchestrator for the gosymx-based checks.

  check <PROPERTY> quick|thorough     run the property's harnesses, replay, write evidence
  check --replay <file>               natively replay one recorded case

Exit codes: 0 property held on everything explored (KNOWN-FINDING lines allowed),
1 violation (a line VIOLATION property=<id> replay=<path> is printed),
2 inconclusive (engine/solver/replay problem; never reported as a pass).
"""
import json, os, re, shutil, subprocess, sys, tempfile, time, glob, hashlib

VERIF = os.path.dirname(os.path.dirname(os.path.abspath(__file__)))
REPO = os.environ.get("VERIF_REPO", "/repo")
HARNESS = os.path.join(VERIF, "harness")
GOENV = dict(os.environ, GOFLAGS="-mod=mod", GOPROXY="off", GOSUMDB="off", GOTOOLCHAIN="local", CGO_ENABLED="0")

sys.path.insert(0, os.path.join(VERIF, "tools"))
import checks as CH  # noqa


def log(*a):
    print(*a, file=sys.stderr, flush=True)


def pkgname_of(reldir):
    """Go package name of /repo/<reldir> (from its first non-test file)."""
    for f in sorted(glob.glob(os.path.join(REPO, reldir, "*.go"))):
        if f.endswith("_test.go"):
            continue
        for line in open(f):
            m = re.match(r"\s*package\s+(\w+)", line)
            if m:
                return m.group(1)
    raise SystemExit(f"cannot find package name for {reldir}")


def harness_files(reldir):
    d = os.path.join(HARNESS, reldir)
    return sorted(glob.glob(os.path.join(d, "*.go")))


def entries_in(files):
    out = []
    for f in files:
        for line in open(f):
            m = re.match(r"func (ZZ_\w+)\(\)", line)
            if m:
                out.append(m.group(1))
    return out


def build_overlays(work, pkgs, dep_overlays):
    """Returns (sym_overlay, native_overlay) dicts virtual->real."""
    sym, nat = {}, {}
    for rel in pkgs:
        name = pkgname_of(rel)
        files = harness_files(rel)
        for kind, tmpl in (("sym", "sym.go.tmpl"), ("native", "native.go.tmpl")):
            txt = open(os.path.join(HARNESS, "api", tmpl)).read().replace("PKGNAME", name)
            real = os.path.join(work, f"{rel.replace('/', '_')}_api_{kind}.go")
            open(real, "w").write(txt)
            (sym if kind == "sym" else nat)[os.path.join(REPO, rel, f"zz_api_{kind}.go")] = real
        ents = entries_in([f for f in files if not f.endswith("_sym.go")])
        lines = "\n".join(f'\t\t"{e}": {e},' for e in ents)
        txt = open(os.path.join(HARNESS, "api", "replay_test.go.tmpl")).read().replace("PKGNAME", name).replace("ENTRIES", lines)
        real = os.path.join(work, f"{rel.replace('/', '_')}_replay_test.go")
        open(real, "w").write(txt)
        nat[os.path.join(REPO, rel, "zz_replay_test.go")] = real
        for f in files:
            virt = os.path.join(REPO, rel, os.path.basename(f))
            if f.endswith("_sym.go"):
                sym[virt] = f
            elif f.endswith("_native.go") or f.endswith("_test.go"):
                nat[virt] = f
            else:
                sym[virt] = f
                nat[virt] = f
    for virt, real in dep_overlays.items():
        sym[virt] = real
        nat[virt] = real
    return sym, nat


def run_engine(work, spec):
    sp = os.path.join(work, "spec.json")
    out = os.path.join(work, "out.json")
    spec["out"] = out
    json.dump(spec, open(sp, "w"), indent=1)
    t0 = time.time()
    p = subprocess.run([os.environ.get("VERIF_GOSYMX") or os.path.join(VERIF, "bin", "gosymx"), "-spec", sp], env=GOENV, stdout=subprocess.PIPE, stderr=subprocess.PIPE, text=True)
    dt = time.time() - t0
    if p.stderr.strip():
        log(p.stderr.strip()[-4000:])
    if not os.path.exists(out):
        return None, f"engine produced no output (rc={p.returncode}): {p.stderr[-2000:]}", dt
    o = json.load(open(out))
    if o.get("error"):
        return o, "engine: " + o["error"], dt
    return o, None, dt


_NETNS = None


def netns_available():
    global _NETNS
    if _NETNS is None:
        try:
            _NETNS = subprocess.run(["unshare", "-n", "sh", "-c", "ip link set lo up"], stdout=subprocess.DEVNULL,
                                    stderr=subprocess.DEVNULL, timeout=20).returncode == 0
        except Exception:  # noqa
            _NETNS = False
    return _NETNS


def native_replay(work, nat_overlay, rel, cases, timeout=600):
    """Runs the cases natively; returns {id: result} or raises."""
    if not cases:
        return {}
    ov = os.path.join(work, "overlay_native.json")
    json.dump({"Replace": nat_overlay}, open(ov, "w"))
    cin = os.path.join(work, f"cases_{rel.replace('/', '_')}.json")
    cout = os.path.join(work, f"results_{rel.replace('/', '_')}.json")
    json.dump(cases, open(cin, "w"))
    if os.path.exists(cout):
        os.remove(cout)
    env = dict(GOENV, ZZ_REPLAY_IN=cin, ZZ_REPLAY_OUT=cout)
    cmd = ["go", "test", "-vet=off", "-count=1", "-tags", "verif", "-overlay", ov, "-run", "^TestZZReplay$", "./" + rel]
    # the native environments bind fixed loop-back endpoints (127.0.0.1..3:8805, :2152); a private
    # network namespace keeps two checks running at the same time from colliding on them
    if netns_available():
        cmd = ["unshare", "-n", "sh", "-c", 'ip link set lo up && exec "$@"', "sh"] + cmd
    p = subprocess.run(cmd, cwd=REPO, env=env, stdout=subprocess.PIPE, stderr=subprocess.STDOUT, text=True, timeout=timeout)
    if not os.path.exists(cout):
        raise RuntimeError("native replay failed:\n" + p.stdout[-3000:])
    res = json.load(open(cout))
    return {r["id"]: r for r in res}


TIER = 0


def case_of(pkg, entry, w, cid):
    return {"id": cid, "entry": entry, "nondets": w.get("Nondets") or [], "choices": w.get("Choices") or [], "tier": TIER}


def obs_of(w):
    return [(o["label"], o["value"]) for o in (w.get("Obs") or [])]


def canon_where(where):
    # top function name without position
    top = where.split(" <- ")[0]
    return re.sub(r"@.*$", "", top)


def vkey(entry, v):
    """Identity of a violation: harness entry + obligation label. For panics/exits the
    runtime message is normalised (all numbers inside brackets and after length/capacity
    dropped) so that one panic site is one key, whatever the concrete sizes were."""
    label = v["Label"]
    if v["Kind"] in ("panic", "exit", "wedge"):
        label = re.sub(r"\[(?!IE=)[^\]\[]*\]", "[N]", label)
        label = re.sub(r"(length|capacity) \d+", r"\1 N", label)
    return f"{entry}:{label}"


def load_known():
    p = os.path.join(VERIF, "known_findings.json")
    if not os.path.exists(p):
        return []
    return json.load(open(p)).get("findings", [])


def main():
    if len(sys.argv) >= 3 and sys.argv[1] == "--replay":
        return replay_one(sys.argv[2])
    if len(sys.argv) < 2:
        print(__doc__)
        return 2
    prop = sys.argv[1]
    tier = sys.argv[2] if len(sys.argv) > 2 else os.environ.get("VERIF_TIER", "quick")
    seed = int(os.environ.get("VERIF_SEED", "0") or 0)
    if prop not in CH.CHECKS:
        log(f"no check registered for {prop}")
        return 2
    spec = CH.CHECKS[prop]
    t0 = time.time()
    os.makedirs(os.path.join(VERIF, "work"), exist_ok=True)
    work = tempfile.mkdtemp(prefix=f"vcheck_{prop}_", dir=os.path.join(VERIF, "work"))
    try:
        return run_check(prop, tier, seed, spec, work, t0)
    finally:
        if not os.environ.get("VERIF_KEEP"):
            shutil.rmtree(work, ignore_errors=True)


def run_check(prop, tier, seed, spec, work, t0):
    global TIER
    TIER = 1 if tier == "thorough" else 0
    jobs = spec["jobs"](tier) if callable(spec["jobs"]) else spec["jobs"][tier]
    only = os.environ.get("VERIF_ONLY")
    if only:
        import fnmatch
        sel = [dict(j, entries=[only]) for j in jobs
               if any(fnmatch.fnmatch(e, only) for e in entries_in(harness_files(j["pkg"])))]
        # the other jobs stay (their packages carry models the engine resolves at load time) with an
        # entry pattern that matches nothing
        jobs = (sel + [dict(j, entries=["ZZ_NONE_*"]) for j in jobs if j["pkg"] not in {x["pkg"] for x in sel}]) if sel else [dict(j, entries=[only]) for j in jobs[:1]]
    pkgs = {j["pkg"] for j in jobs} | set(spec.get("extra_pkgs", []))
    dep_rel = dict(spec.get("dep_overlays", {}))
    # harness dependencies between packages: the pfcp harness (C07 sweep, C13) drives the gtp5g
    # driver through constructors exported by the forwarder harness, which in turn needs the
    # perio harness and the add-only go-nl overlay (DoHook is nil unless a harness installs it)
    if "internal/pfcp" in pkgs or "internal/forwarder" in pkgs:
        pkgs |= {"internal/forwarder", "internal/forwarder/perio"}
        dep_rel.update(CH.NL_OV)
    pkgs = sorted(pkgs)
    dep_ov = {v: os.path.join(VERIF, r) for v, r in dep_rel.items()}
    sym_ov, nat_ov = build_overlays(work, pkgs, dep_ov)
    for v, r in spec.get("sym_overlays", {}).items():
        sym_ov[v] = os.path.join(VERIF, r)
    # models regenerated from /repo's current source on every run (C20: validator model from struct tags)
    pregen_note = None
    if spec.get("pregen"):
        import importlib
        try:
            ov, pregen_note = importlib.import_module(spec["pregen"]).generate(work, REPO)
            sym_ov.update(ov)
        except Exception as e:  # generator cannot express the current source: never a pass
            print(f"INCONCLUSIVE: {spec['pregen']}: {e}")
            print(f"{prop} {tier}: paths=0 obligations=0 queries=0 validated=0 violations=0 known=0 inconclusive=1 wall={time.time()-t0:.1f}s")
            return 2
    skip_native = set(spec.get("no_native_entries", []))
    espec = {
        "repo": REPO, "tags": "verif", "overlay": sym_ov, "jobs": jobs,
        "workers": int(os.environ.get("VERIF_WORKERS", "0") or 0) or (os.cpu_count() or 4),
        "timeout_ms": spec.get("timeout_ms", {}).get(tier, 20000 if tier == "quick" else 120000),
        "models": spec.get("models", {}), "no_init_pkgs": spec.get("no_init_pkgs", []),
        "verbose": bool(os.environ.get("VERIF_VERBOSE")), "tier": 1 if tier == "thorough" else 0,
        # VERIF_SOLVER="z3-new -in" / "cvc5 --incremental --lang=smt2" runs the same encoding on another back end
        "solver": (os.environ.get("VERIF_SOLVER") or "z3 -in").split(),
    }
    out, err, engine_s = run_engine(work, espec)
    inconclusive = []
    if err:
        inconclusive.append(err)
    results = (out or {}).get("results") or []

    # ---- collect replay cases ----
    cases_by_pkg = {}
    expect = {}
    viol_by_key = {}
    tot = dict(paths=0, ok=0, infeasible=0, steps=0, asserts=0, asserts_conc=0, queries=0, sat=0, unsat=0, unknown=0, solver_s=0.0, errors=0)
    covers = {}
    funcs = {}
    samples = []
    per_entry = []
    for r in results:
        s = r["summary"]
        entry = r["entry"]
        tot["paths"] += s["Paths"]; tot["ok"] += s["OK"]; tot["infeasible"] += s["Infeasible"]
        tot["steps"] += s["Steps"]; tot["asserts"] += s["Asserts"]; tot["asserts_conc"] += s["AssertsConc"]
        so = s["Solver"]
        tot["queries"] += so["Queries"]; tot["sat"] += so["Sat"]; tot["unsat"] += so["Unsat"]; tot["unknown"] += so["Unknown"] + s["Unknowns"] * 0
        tot["errors"] += so["Errors"]; tot["solver_s"] += so["SolverNS"] / 1e9
        for c, n in (s["Covers"] or {}).items():
            covers[f"{entry}:{c}"] = n
        for f, n in (s["Funcs"] or {}).items():
            funcs[f] = funcs.get(f, 0) + n
        for i in (s["Inconclusive"] or []):
            inconclusive.append(f"{entry}: {i}")
        if so["Unknown"] or so["Errors"]:
            inconclusive.append(f"{entry}: solver returned unknown/error on {so['Unknown']}+{so['Errors']} queries")
        per_entry.append({"entry": entry, "paths": s["Paths"], "ok": s["OK"], "violating_paths": len(s["Violations"] or []),
                          "asserts": s["Asserts"], "queries": so["Queries"], "wall_s": round(s["WallS"], 2)})
        if entry in skip_native:
            continue_native = False
        else:
            continue_native = True
        for k, w in enumerate(s["Witnesses"] or []):
            if not continue_native:
                break
            cid = f"{entry}#w{k}"
            cases_by_pkg.setdefault(r["pkg"], []).append(case_of(r["pkg"], entry, w, cid))
            expect[cid] = ("pass", obs_of(w), r["pkg"], entry, w)
        for v in (s["Violations"] or []):
            key = vkey(entry, v)
            if key in viol_by_key:
                rec = viol_by_key[key]
                rec["count"] += 1
                # up to two more counterexamples per key are replayed as well: code whose behaviour depends
                # on Go's map iteration order may take another path natively than the one the engine took,
                # and one counterexample that reproduces is enough
                if continue_native and len(rec["alts"]) < 2:
                    acid = f"{rec['cid']}.{len(rec['alts']) + 1}"
                    rec["alts"].append((acid, v))
                    cases_by_pkg.setdefault(r["pkg"], []).append(case_of(r["pkg"], entry, v["Witness"], acid))
                    expect[acid] = (v["Witness"].get("Expect", "?"), obs_of(v["Witness"]), r["pkg"], entry, v["Witness"])
                continue
            cid = f"{entry}#v{len(viol_by_key)}"
            viol_by_key[key] = {"key": key, "count": 1, "v": v, "cid": cid, "pkg": r["pkg"], "entry": entry, "no_native": not continue_native, "alts": []}
            if not continue_native:
                continue
            cases_by_pkg.setdefault(r["pkg"], []).append(case_of(r["pkg"], entry, v["Witness"], cid))
            expect[cid] = (v["Witness"].get("Expect", "?"), obs_of(v["Witness"]), r["pkg"], entry, v["Witness"])

    # vacuity: required cover labels
    for entry_cover in spec.get("covers", {}).get(tier, spec.get("covers", {}).get("all", [])):
        if covers.get(entry_cover, 0) == 0:
            inconclusive.append(f"vacuity: cover {entry_cover} never reached")

    # ---- native replay ----
    validated = 0
    replay_results = {}
    native_s = 0.0
    if not spec.get("no_native"):
        for rel, cases in cases_by_pkg.items():
            t1 = time.time()
            try:
                replay_results.update(native_replay(work, nat_ov, rel, cases))
            except Exception as e:  # noqa
                inconclusive.append(f"native replay for {rel} failed: {e}")
            native_s += time.time() - t1
    # A witness (a path the engine completed without a failed obligation) that fails natively is re-run
    # once, alone with the other such cases: the native environments wait real milliseconds for event
    # loops and loop-back sockets, and on a heavily loaded machine a response can arrive after the
    # harness looked. A failure that persists is reported as before; one that does not was timing.
    native_retries = 0
    if not spec.get("no_native"):
        retry = {}
        for cid, (exp, obs, pkg, entry, w) in expect.items():
            rr = replay_results.get(cid)
            if exp == "pass" and rr is not None and (rr["outcome"] != "pass" or [(o["label"], o["value"]) for o in (rr.get("obs") or [])] != obs):
                retry.setdefault(pkg, []).append(case_of(pkg, entry, w, cid))
        for rel, cases in retry.items():
            native_retries += len(cases)
            try:
                replay_results.update(native_replay(work, nat_ov, rel, cases[:50]))
            except Exception as e:  # noqa
                inconclusive.append(f"native replay (retry) for {rel} failed: {e}")
    confirmed = []
    not_reproduced = {}
    engine_only_confirmed = set()
    for cid, (exp, obs, pkg, entry, w) in expect.items():
        if spec.get("no_native"):
            continue
        rr = replay_results.get(cid)
        if rr is None:
            inconclusive.append(f"no native result for {cid}")
            continue
        outc = rr["outcome"]
        nobs = [(o["label"], o["value"]) for o in (rr.get("obs") or [])]
        if exp == "pass":
            if outc != "pass":
                inconclusive.append(f"translator validation: {cid} passes symbolically but natively: {outc}")
            elif nobs != obs:
                diff = next(((a, b) for a, b in zip(obs, nobs) if a != b), (len(obs), len(nobs)))
                inconclusive.append(f"translator validation: {cid} observations differ: engine/native {diff}")
            else:
                validated += 1
        else:
            kind = exp.split(":", 1)[0]
            ok = False
            if kind == "assert":
                ok = outc == exp or exp.split(":", 1)[1] in (rr.get("failed") or [])
            elif kind == "panic":
                ok = outc.startswith("panic:")
            elif kind in ("exit", "wedge"):
                ok = outc.startswith(kind) or outc.startswith("panic:zzexit") or outc.startswith("panic:zzwedge")
            if ok:
                validated += 1
                # observations up to the failure point must agree as well
                n = min(len(obs), len(nobs))
                if obs[:n] != nobs[:n]:
                    inconclusive.append(f"translator validation: {cid} (violation) observations differ")
                confirmed.append(cid)
            elif kind == "assert" and outc == "pass" and nobs == obs and any(exp.split(":", 1)[1].startswith(p) for p in spec.get("engine_only_labels", [])):
                # the assertion is over an observable that does not exist in the native build (liveness of
                # timers / goroutines: the native stubs return -1 and the harness skips the assertion there).
                # The native run of the same inputs agrees with the engine on every other assertion and on
                # all observations; the violation is reported on the engine's authority and marked so.
                confirmed.append(cid)
                engine_only_confirmed.add(cid)
            else:
                not_reproduced[cid] = f"counterexample {cid} ({exp}) does not reproduce natively (native outcome: {outc})"
    for key, rec in viol_by_key.items():
        cids = [(rec["cid"], rec["v"])] + rec["alts"]
        hit = next(((c, v) for c, v in cids if c in confirmed), None)
        if hit:
            rec["cid"], rec["v"] = hit  # the replay file carries a counterexample that reproduced
        else:
            for c, _ in cids:
                if c in not_reproduced:
                    inconclusive.append(not_reproduced[c])

    # ---- verdict ----
    known = [k for k in load_known() if k.get("property") == prop]
    open_keys = {k["key"]: k for k in known if k.get("status") == "open"}
    lines = []
    new_viol = 0
    rdir = os.path.join(VERIF, "replay", prop)
    # the directory reflects this run only: files of superseded keys would be misleading
    shutil.rmtree(rdir, ignore_errors=True)
    os.makedirs(rdir, exist_ok=True)
    for key, rec in sorted(viol_by_key.items()):
        if rec["cid"] not in confirmed and not spec.get("no_native") and not rec.get("no_native"):
            continue
        if key in open_keys:
            lines.append(f"KNOWN-FINDING: property={prop} {open_keys[key]['what']} [{key}]")
            continue
        new_viol += 1
        fn = os.path.join(rdir, re.sub(r"[^A-Za-z0-9_.-]+", "_", key)[:120] + ".json")
        case = case_of(rec["pkg"], rec["entry"], rec["v"]["Witness"], rec["cid"])
        json.dump({"property": prop, "key": key, "pkg": rec["pkg"], "where": rec["v"]["Where"], "expect": rec["v"]["Witness"].get("Expect"),
                   "case": case, "observations": rec["v"]["Witness"].get("Obs"),
                   "confirmation": ("engine only: the asserted observable does not exist in the native build; all other assertions and observations of the native replay agree"
                                    if rec["cid"] in engine_only_confirmed else "reproduced natively")}, open(fn, "w"), indent=1)
        lines.append(f"VIOLATION property={prop} replay={fn}")
        log(f"  violation {key} ({rec['count']} paths) at {rec['v']['Where'][:200]}")
    wall = time.time() - t0

    samples = []
    for cid, (exp, obs, pkg, entry, w) in list(expect.items())[:6]:
        samples.append({"case": cid, "expect": exp, "inputs": {n["name"]: n["value"] for n in (w.get("Nondets") or [])[:24]},
                        "choices": w.get("Choices"), "observations": [list(o) for o in obs[:6]]})
    if not samples:
        samples = [{"note": "no completed path"}]
    repo_funcs = sorted(f for f in funcs if "go-upf" in f and ".zz" not in f and ".ZZ_" not in f)
    ev = {
        "property_id": prop, "tier": tier, "seed": seed, "level": "model_checking",
        "coverage": {
            "states": max(tot["paths"], 0), "transitions": tot["queries"] + tot["asserts_conc"],
            "traces_validated_against_impl": validated, "samples": samples,
            "explanation": "states = symbolic paths of the real code explored to completion (each covers all inputs satisfying its path condition); transitions = solver queries discharged plus obligations decided by constant folding",
            "paths": tot["paths"], "paths_ok": tot["ok"], "paths_infeasible": tot["infeasible"],
            "interpreted_ssa_instructions": tot["steps"],
            "obligations": tot["asserts"], "obligations_decided_concretely": tot["asserts_conc"],
            "solver": {"binary": (os.environ.get("VERIF_SOLVER") or "z3 -in (4.8.12)"), "queries": tot["queries"], "sat": tot["sat"], "unsat": tot["unsat"], "unknown": tot["unknown"], "errors": tot["errors"], "seconds": round(tot["solver_s"], 2)},
            "functions_encoded": repo_funcs[:400], "functions_encoded_total": len(funcs),
            "bounds": spec.get("bounds", {}).get(tier, ""), "outside_bounds": spec.get("outside", ""),
            "entries": per_entry, "vacuity_covers": covers,
            "violations_by_key": {k: r["count"] for k, r in viol_by_key.items()},
            "known_findings_matched": [l for l in lines if l.startswith("KNOWN")],
            "inconclusive": inconclusive[:20],
            "engine_wall_s": round(engine_s, 2), "native_replay_wall_s": round(native_s, 2), "native_witness_retries": native_retries,
            "exhaustive": not inconclusive,
        },
        "assumptions": spec.get("assumptions", []),
        "wall_s": round(wall, 2), "violations": new_viol,
    }
    os.makedirs(os.path.join(VERIF, "evidence"), exist_ok=True)
    json.dump(ev, open(os.path.join(VERIF, "evidence", f"{prop}.json"), "w"), indent=1)
    for l in lines:
        print(l)
    print(f"{prop} {tier}: paths={tot['paths']} obligations={tot['asserts']} queries={tot['queries']} validated={validated} "
          f"violations={new_viol} known={sum(1 for l in lines if l.startswith('KNOWN'))} inconclusive={len(inconclusive)} wall={wall:.1f}s")
    for i in inconclusive[:10]:
        print("INCONCLUSIVE:", i[:1500])
    if new_viol:
        return 1
    if inconclusive:
        return 2
    return 0


def replay_one(path):
    rec = json.load(open(path))
    prop = rec["property"]
    spec = CH.CHECKS[prop]
    work = tempfile.mkdtemp(prefix="vreplay_")
    try:
        dep_rel = dict(spec.get("dep_overlays", {}))
        rpkgs = {rec["pkg"]} | set(spec.get("extra_pkgs", []))
        if "internal/pfcp" in rpkgs or "internal/forwarder" in rpkgs:
            rpkgs |= {"internal/forwarder", "internal/forwarder/perio"}
            dep_rel.update(CH.NL_OV)
        dep_ov = {v: os.path.join(VERIF, r) for v, r in dep_rel.items()}
        _, nat_ov = build_overlays(work, sorted(rpkgs), dep_ov)
        res = native_replay(work, nat_ov, rec["pkg"], [rec["case"]])
        r = res.get(rec["case"]["id"])
        print(json.dumps({"expected": rec["expect"], "native": r}, indent=1))
        if r and r["outcome"] != "pass":
            print(f"REPRODUCED: {r['outcome']}")
            return 1
        return 0
    finally:
        shutil.rmtree(work, ignore_errors=True)


if __name__ == "__main__":
    sys.exit(main())
