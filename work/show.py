import json,sys
o=json.load(open(sys.argv[1]))
print(o.get('error'), 'load',round(o['load_s'],1), 'build',round(o['build_s'],1), 'pkgs',o['packages'])
for r in o['results'] or []:
    s=r['summary']
    print(r['entry'], {k:s[k] for k in ['Paths','OK','Infeasible','Steps','Asserts','AssertsConc','Unknowns']}, 'wall',round(s['WallS'],1), s['Solver']['Queries'],'q', round(s['Solver']['SolverNS']/1e9,1),'s solver', 'covers',s['Covers'])
    for v in (s['Violations'] or [])[:int(sys.argv[2]) if len(sys.argv)>2 else 5]: print('  VIOL', v['Label'], '|', v['Where'][:300], '|', [(n['name'],hex(n['value'])) for n in v['Witness']['Nondets'][:12]])
    for i in (s['Inconclusive'] or [])[:5]: print('  INC', i[:2500])
