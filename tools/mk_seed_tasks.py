#!/usr/bin/env python3
"""mk_seed_tasks.py <batch> <PID>=<mechanism-substring> ...
Creates one scratch worktree of /repo per property under /tmp/seed<batch>_<PID> and writes
SEED/TASK.md into it. The task text contains ONLY the property's own text (statement, quantifier,
anchor files, mechanism list) plus fixed instructions; nothing from /verif's checks."""
import json, os, subprocess, sys
V = os.path.dirname(os.path.dirname(os.path.abspath(__file__)))
props = {json.loads(l)["id"]: json.loads(l) for l in open(os.path.join(V, "properties.jsonl"))}
TEMPLATE = open(os.path.join(V, "tools", "seed_task_template.md")).read()
batch = sys.argv[1]
if batch.startswith("N"):  # neutral batch: behaviour-preserving refactorings (false-alarm test)
    TEMPLATE = open(os.path.join(V, "tools", "neutral_task_template.md")).read()
for arg in sys.argv[2:]:
    if arg.endswith("!"):
        # PID!: free choice of mechanism and input dimension
        pid = arg[:-1]
        p = props[pid]
        ms = [{"name": "your own choice - any of the mechanisms above, or code they depend on. Pick the kind of slip an experienced reviewer would wave through (an off-by-one at a boundary the tests never touch, state that survives one step too long, two similar identifiers swapped, an aliasing slice, a check moved across a statement with a side effect), and make it as hard to notice from the outside as you can while it still breaks the property"}]
    elif "~" in arg:
        # PID~<phrase of the property's own quantifier text>: aim at an input dimension instead of a mechanism
        pid, sub = arg.split("~", 1)
        p = props[pid]
        assert sub in p["quantifier"]["text"], (pid, sub)
        ms = [{"name": "whatever mechanism you like - but the change must show ONLY for this part of the input space the property quantifies over: \"" + sub + "\""}]
    else:
        pid, sub = arg.split("=", 1)
        p = props[pid]
        ms = [m for m in p["anchors"]["mechanism"] if sub.lower() in m["name"].lower()]
        assert len(ms) == 1, (pid, sub, [m["name"] for m in p["anchors"]["mechanism"]])
    wt = f"/tmp/seed{batch}_{pid}"
    subprocess.run(["git", "-C", "/repo", "worktree", "remove", "--force", wt], stdout=subprocess.DEVNULL, stderr=subprocess.DEVNULL)
    r = subprocess.run(["git", "-C", "/repo", "worktree", "add", "-q", "--detach", wt, "HEAD"], capture_output=True, text=True)
    assert r.returncode == 0, r.stderr
    os.makedirs(wt + "/SEED", exist_ok=True)
    mechs = "\n".join(f"- {m['name']} (at {m['where']})" for m in p["anchors"]["mechanism"])
    open(wt + "/SEED/TASK.md", "w").write(TEMPLATE.format(wt=wt, pid=pid, title=p["title"], statement=p["statement"],
         quant=p["quantifier"]["text"], files=", ".join(p["anchors"]["files"]), mechs=mechs, target=ms[0]["name"]))
    print(wt, "->", ms[0]["name"])
