#!/usr/bin/env python3
"""Confirm a seeded change produced by a sub-agent and run checks against it.

  seed.py <seed-id> <agent-worktree> <property> <check-id>[,<check-id>...] [tier]

1. Independent confirmation in a FRESH scratch worktree of /repo (not the agent's):
   (c) demo passes on the unchanged code, (a) with the patch the project builds and the stable
   suite passes, (b) with the patch the demo fails.
2. Applies the patch to /repo, runs the named checks, ALWAYS restores /repo (git checkout -- .).
3. Stores /verif/seeded/<seed-id>/{patch.diff, demo_test.go, meta.json}.
Nothing is ever committed to /repo.
"""
import json, os, re, shutil, subprocess, sys, time

VERIF = os.path.dirname(os.path.dirname(os.path.abspath(__file__)))
REPO = "/repo"
ENV = dict(os.environ, GOFLAGS="-mod=mod", GOPROXY="off", GOSUMDB="off", GOTOOLCHAIN="local", CGO_ENABLED="0")
SUITE = [
    ["go", "build", "./..."],
    ["go", "test", "-vet=off", "-count=1", "./internal/pfcp/", "./internal/report/", "./internal/gtpv1/", "./internal/forwarder/perio/"],
    ["go", "test", "-vet=off", "-count=1", "./internal/forwarder/", "-run", "TestParseFlowDesc|Test_convertSlice"],
]


def run(cmd, cwd, timeout=900):
    p = subprocess.run(cmd, cwd=cwd, env=ENV, stdout=subprocess.PIPE, stderr=subprocess.STDOUT, text=True, timeout=timeout)
    return p.returncode, p.stdout


def seeded_tree(sid, patch):
    """Where the checks run against the seed. Default: /repo itself (git apply, undone afterwards).
    With SEED_SCRATCH=1 (used while a background run reads /repo): a scratch worktree of /repo under
    /tmp with the patch applied, handed to the checks through VERIF_REPO; /repo is not touched."""
    if os.environ.get("SEED_SCRATCH"):
        wt = f"/tmp/seedrun_{sid}"
        subprocess.run(["git", "-C", REPO, "worktree", "remove", "--force", wt], stdout=subprocess.DEVNULL, stderr=subprocess.DEVNULL)
        rc, out = run(["git", "-C", REPO, "worktree", "add", "-q", "--detach", wt, "HEAD"], REPO)
        assert rc == 0, out
        rc, out = run(["git", "apply", patch], wt)
        assert rc == 0, out
        return wt, dict(os.environ, VERIF_REPO=wt)
    rc, out = run(["git", "status", "--porcelain"], REPO)
    assert out.strip() == "", "/repo is not clean: " + out
    rc, out = run(["git", "apply", patch], REPO)
    assert rc == 0, out
    return REPO, dict(os.environ)


def restore_tree(target):
    if target == REPO:
        subprocess.run(["git", "-C", REPO, "checkout", "--", "."], check=True)
        rc, out = run(["git", "status", "--porcelain"], REPO)
        assert out.strip() == "", "/repo not restored: " + out
    else:
        subprocess.run(["git", "-C", REPO, "worktree", "remove", "--force", target], stdout=subprocess.DEVNULL, stderr=subprocess.DEVNULL)


def recheck():
    """seed.py --recheck <seed-id> <check-id>[,...] [tier]: run checks against a stored, already
    confirmed seed (after the checks were strengthened); records meta['after_strengthening']."""
    sid, checks = sys.argv[2], sys.argv[3].split(",")
    tier = sys.argv[4] if len(sys.argv) > 4 else "quick"
    sd = os.path.join(VERIF, "seeded", sid)
    meta = json.load(open(os.path.join(sd, "meta.json")))
    assert meta.get("kept"), "seed was not confirmed"
    target, cenv = seeded_tree(sid, os.path.join(sd, "patch.diff"))
    res = {}
    try:
        for c in checks:
            evf = os.path.join(VERIF, "evidence", c + ".json")
            evbak = open(evf).read() if os.path.exists(evf) else None
            p = subprocess.run([os.path.join(VERIF, "check"), c, tier], cwd=VERIF, env=cenv, stdout=subprocess.PIPE, stderr=subprocess.STDOUT, text=True, timeout=3600)
            lines = p.stdout.splitlines()
            res[c] = {"exit": p.returncode,
                      "violations": sorted({re.sub(r"^.*/replay/[^/]+/", "", l).replace(".json", "") for l in lines if l.startswith("VIOLATION")}),
                      "summary": [l for l in lines if l.startswith(c + " ")]}
            if evbak is not None:
                open(evf, "w").write(evbak)
    finally:
        restore_tree(target)
    meta.setdefault("after_strengthening", {}).update(res)
    meta["detected_by_after_strengthening"] = sorted(set(meta.get("detected_by_after_strengthening", [])) | {c for c, r in res.items() if r["exit"] == 1 and r["violations"]})
    json.dump(meta, open(os.path.join(sd, "meta.json"), "w"), indent=1)
    print(json.dumps({sid: {c: (r["exit"], r["violations"][:4]) for c, r in res.items()}}, indent=1))


def main():
    if sys.argv[1] == "--recheck":
        return recheck()
    sid, awt, prop, checks = sys.argv[1], sys.argv[2], sys.argv[3], sys.argv[4].split(",")
    tier = sys.argv[5] if len(sys.argv) > 5 else "quick"
    patch = os.path.join(awt, "SEED", "patch.diff")
    assert os.path.exists(patch), "no SEED/patch.diff"
    # the demo test: untracked *_test.go outside SEED/ in the agent's worktree
    rc, out = run(["git", "status", "--porcelain", "--untracked-files=all"], awt)
    demos = [l[3:] for l in out.splitlines() if l.startswith("??") and l.endswith("_test.go") and not l[3:].startswith("SEED/")]
    assert len(demos) >= 1, f"no demo test found in {awt}: {out}"
    meta = {"seed": sid, "property": prop, "agent_worktree": awt, "demo_files": demos, "confirmed": {}, "checks": {}}
    cwt = f"/tmp/confirm_{sid}"
    subprocess.run(["git", "-C", REPO, "worktree", "remove", "--force", cwt], stdout=subprocess.DEVNULL, stderr=subprocess.DEVNULL)
    rc, out = run(["git", "-C", REPO, "worktree", "add", "-q", "--detach", cwt, "HEAD"], REPO)
    assert rc == 0, out
    try:
        names = []
        for d in demos:
            names += re.findall(r"^func (Test\w+)\(", open(os.path.join(awt, d)).read(), re.M)
        pkgs = sorted({"./" + os.path.dirname(d) + "/" for d in demos})
        demo_cmd = ["go", "test", "-vet=off", "-count=1", "-run", "^(" + "|".join(names) + ")$"] + pkgs
        meta["demo_cmd"] = " ".join(demo_cmd)

        def put_demo(present):
            for d in demos:
                dst = os.path.join(cwt, d)
                if present:
                    os.makedirs(os.path.dirname(dst), exist_ok=True)
                    shutil.copy(os.path.join(awt, d), dst)
                elif os.path.exists(dst):
                    os.remove(dst)

        # (c) demo on the unchanged code
        put_demo(True)
        rc, out = run(demo_cmd, cwt)
        meta["confirmed"]["c_demo_passes_without_change"] = rc == 0
        if rc != 0:
            meta["confirmed"]["c_output"] = out[-1500:]
        # (a) the EXISTING suite (demo removed) with the patch applied
        put_demo(False)
        rc, out = run(["git", "apply", patch], cwt)
        meta["confirmed"]["patch_applies"] = rc == 0
        assert rc == 0, "patch does not apply: " + out
        ok = True
        for c in SUITE:
            rc, out = run(c, cwt)
            if rc != 0:
                # the baseline suite contains real-time tests (perio TestServer: 1 s / 2 s tickers) that
                # can miss their window on a loaded machine: one retry, recorded
                meta["confirmed"].setdefault("a_retried", []).append(" ".join(c) + " :: " + out[-300:])
                rc, out = run(c, cwt)
            if rc != 0:
                ok = False
                meta["confirmed"]["a_output"] = " ".join(c) + "\n" + out[-1500:]
                break
        meta["confirmed"]["a_suite_passes_with_change"] = ok
        # (b) demo with the change
        put_demo(True)
        rc, out = run(demo_cmd, cwt)
        meta["confirmed"]["b_demo_fails_with_change"] = rc != 0
        meta["confirmed"]["b_output_tail"] = out[-800:]
    finally:
        subprocess.run(["git", "-C", REPO, "worktree", "remove", "--force", cwt], stdout=subprocess.DEVNULL, stderr=subprocess.DEVNULL)
    good = all(meta["confirmed"].get(k) for k in ("c_demo_passes_without_change", "a_suite_passes_with_change", "b_demo_fails_with_change"))
    meta["kept"] = good
    # run the checks against /repo with the patch applied, always restore
    if good:
        target, cenv = seeded_tree(sid, patch)
        meta["checks_run_against"] = target
        try:
            for c in checks:
                t0 = time.time()
                # evidence/<id>.json must describe the unchanged tree: keep it across the seeded run
                evf = os.path.join(VERIF, "evidence", c + ".json")
                evbak = open(evf).read() if os.path.exists(evf) else None
                p = subprocess.run([os.path.join(VERIF, "check"), c, tier], cwd=VERIF, env=cenv, stdout=subprocess.PIPE, stderr=subprocess.STDOUT, text=True, timeout=3600)
                lines = [l for l in p.stdout.splitlines() if l.startswith(("VIOLATION", "KNOWN-FINDING", "INCONCLUSIVE", c + " "))]
                meta["checks"][c] = {"exit": p.returncode, "wall_s": round(time.time() - t0, 1),
                                     "violations": [l for l in lines if l.startswith("VIOLATION")],
                                     "summary": [l for l in lines if l.startswith(c + " ")],
                                     "inconclusive": [l[:300] for l in lines if l.startswith("INCONCLUSIVE")][:5]}
                if evbak is not None:
                    open(evf, "w").write(evbak)
        finally:
            restore_tree(target)
        meta["detected_by"] = [c for c, r in meta["checks"].items() if r["exit"] == 1 and r["violations"]]
    # store
    sd = os.path.join(VERIF, "seeded", sid)
    os.makedirs(sd, exist_ok=True)
    shutil.copy(patch, os.path.join(sd, "patch.diff"))
    for i, d in enumerate(demos):
        shutil.copy(os.path.join(awt, d), os.path.join(sd, "demo_test.go" if i == 0 else f"demo{i}_test.go"))
    notes = os.path.join(awt, "SEED", "notes.md")
    if os.path.exists(notes):
        shutil.copy(notes, os.path.join(sd, "agent_notes.md"))
    meta["demo_location"] = demos
    json.dump(meta, open(os.path.join(sd, "meta.json"), "w"), indent=1)
    print(json.dumps({"seed": sid, "confirmed": {k: v for k, v in meta["confirmed"].items() if isinstance(v, bool)},
                      "kept": good, "detected_by": meta.get("detected_by"),
                      "checks": {c: (r["exit"], r["summary"]) for c, r in meta["checks"].items()}}, indent=1))


if __name__ == "__main__":
    main()
