package sx

import (
	"fmt"
	"go/token"
	"go/types"
	"net"
	"strconv"
	"strings"

	"gosymx/term"
)

// mkStr builds a string value from byte cells (native string if all concrete).
func (m *Machine) mkStr(b []value) value {
	conc := true
	for _, c := range b {
		if _, ok := c.(uint64); !ok {
			conc = false
			break
		}
	}
	if conc {
		bs := make([]byte, len(b))
		for i, c := range b {
			bs[i] = byte(c.(uint64))
		}
		return string(bs)
	}
	cp := make([]value, len(b))
	copy(cp, b)
	return &sstr{b: cp}
}

func (m *Machine) bytesToStr(b []value) value { return m.mkStr(b) }

func (m *Machine) strCells(s value) []value {
	switch s := s.(type) {
	case string:
		out := make([]value, len(s))
		for i := 0; i < len(s); i++ {
			out[i] = uint64(s[i])
		}
		return out
	case *sstr:
		return s.b
	case *tstr:
		m.unsupported("byte access to formatted tuple string %q", s.format)
	}
	panic(fmt.Sprintf("strCells: %T", s))
}

func (m *Machine) strToBytes(s value) value {
	cells := m.strCells(s)
	out := make([]value, len(cells))
	copy(out, cells)
	return out
}

func strLen(s value) int {
	switch s := s.(type) {
	case string:
		return len(s)
	case *sstr:
		return len(s.b)
	}
	return -1
}

func (m *Machine) strIndex(s value, idx value, t types.Type) value {
	switch s := s.(type) {
	case string:
		if _, sym := idx.(*term.Term); !sym {
			return uint64(s[m.indexIn(idx, t, len(s))])
		}
		return m.indexLoad(m.strCells(s), idx, t)
	case *sstr:
		return m.indexLoad(s.b, idx, t)
	}
	panic(fmt.Sprintf("strIndex: %T", s))
}

func (m *Machine) strConcat(a, b value) value {
	if x, ok := a.(string); ok {
		if y, ok := b.(string); ok {
			return x + y
		}
	}
	_, aT := a.(*tstr)
	_, bT := b.(*tstr)
	if aT || bT {
		// concatenation with a tuple string is a tuple string: plain text becomes literal text of the
		// format, the arguments are appended ("10.0.0.1:8805" + "-" + FormatUint(seq) -> "10.0.0.1:8805-%d")
		fa, aa, ok1 := tuplePart(a)
		fb, ab, ok2 := tuplePart(b)
		if ok1 && ok2 {
			args := append(append([]value{}, aa...), ab...)
			return &tstr{format: "sym:" + fa + fb, args: args}
		}
		m.unsupported("concatenation of a formatted tuple string with a string of symbolic bytes")
	}
	ca, cb := m.strCells(a), m.strCells(b)
	out := make([]value, 0, len(ca)+len(cb))
	out = append(out, ca...)
	out = append(out, cb...)
	return m.mkStr(out)
}

// strEq: bool or symbolic Bool.
func (m *Machine) strEq(a, b value) value {
	if x, ok := a.(string); ok {
		if y, ok := b.(string); ok {
			return x == y
		}
	}
	ta, aT := a.(*tstr)
	tb, bT := b.(*tstr)
	if aT || bT {
		if !(aT && bT) {
			t, other := ta, b
			if bT {
				t, other = tb, a
			}
			if s, ok := other.(string); ok && t.format == "ip4" {
				ip := net.ParseIP(s).To4()
				if ip == nil || ip.String() != s {
					return false
				}
				var acc value = true
				for i := 0; i < 4; i++ {
					acc = m.and(acc, m.equals(nil, t.args[i], uint64(ip[i])))
				}
				return acc
			}
			if s, ok := other.(string); ok {
				if r, ok := m.matchFormatted(t, s); ok {
					return r
				}
			}
			m.unsupported("comparison of formatted tuple string with ordinary string")
		}
		if ta.format != tb.format || strings.HasPrefix(ta.format, "sym:") || ta.format == "%s-%d" {
			return m.tupleEqAcross(ta, tb)
		}
		if len(ta.args) != len(tb.args) {
			return false
		}
		var acc value = true
		for i := range ta.args {
			var e value
			switch x := ta.args[i].(type) {
			case string:
				e = x == tb.args[i].(string)
			default:
				e = m.equals(nil, ta.args[i], tb.args[i])
			}
			acc = m.and(acc, e)
		}
		return acc
	}
	ca, cb := m.strCells(a), m.strCells(b)
	if len(ca) != len(cb) {
		return false
	}
	var acc value = true
	for i := range ca {
		acc = m.and(acc, m.equals(nil, ca[i], cb[i]))
		if bb, ok := acc.(bool); ok && !bb {
			return false
		}
	}
	return acc
}

// strLess: a < b lexicographically.
func (m *Machine) strLess(a, b value) value {
	if x, ok := a.(string); ok {
		if y, ok := b.(string); ok {
			return x < y
		}
	}
	ca, cb := m.strCells(a), m.strCells(b)
	n := len(ca)
	if len(cb) < n {
		n = len(cb)
	}
	// result = OR_i (prefix equal up to i and a[i] < b[i]) OR (all n equal and len(a)<len(b))
	var res value = len(ca) < len(cb)
	for i := n - 1; i >= 0; i-- {
		lt := m.binopU8(token.LSS, ca[i], cb[i])
		eq := m.equals(nil, ca[i], cb[i])
		res = m.or(lt, m.and(eq, res))
	}
	return res
}

func (m *Machine) binopU8(op token.Token, a, b value) value {
	return m.binop(op, types.Typ[types.Uint8], a, b)
}

func (m *Machine) strBinop(op token.Token, a, b value) value {
	switch op {
	case token.ADD:
		return m.strConcat(a, b)
	case token.LSS:
		return m.strLess(a, b)
	case token.GTR:
		return m.strLess(b, a)
	case token.LEQ:
		return m.not(m.strLess(b, a))
	case token.GEQ:
		return m.not(m.strLess(a, b))
	}
	panic("string binop " + op.String())
}

// concreteStr returns the native string or aborts the path as unsupported.
func (m *Machine) concreteStr(s value, what string) string {
	switch s := s.(type) {
	case string:
		return s
	}
	m.unsupported("symbolic string reaches %s", what)
	return ""
}

// matchFormatted decides tstr == s for a concrete string s by reading s against the tuple's format:
// literal text must match, a %s/%v argument that is a concrete string must match verbatim, and a
// %d/%v argument that is an integer (possibly symbolic) must equal the maximal run of decimal digits
// found at its place. The reading is unambiguous - and only then is an answer given - when every
// integer verb is followed by a literal that does not start with a digit (or by the end).
func (m *Machine) matchFormatted(t *tstr, s string) (value, bool) {
	f := t.format
	if strings.HasPrefix(f, "sym:") {
		f = f[4:]
	} else if f != "%s-%d" {
		return nil, false
	}
	verbs := simpleVerbs(f)
	if verbs == nil && strings.Contains(f, "%") {
		return nil, false
	}
	var acc value = true
	ai, pos := 0, 0
	for i := 0; i < len(f); {
		if f[i] != '%' {
			if pos >= len(s) || s[pos] != f[i] {
				return false, true
			}
			pos++
			i++
			continue
		}
		if i+1 < len(f) && f[i+1] == '%' {
			if pos >= len(s) || s[pos] != '%' {
				return false, true
			}
			pos++
			i += 2
			continue
		}
		if ai >= len(verbs) || ai >= len(t.args) {
			return nil, false
		}
		vb := verbs[ai]
		arg := t.args[ai]
		ai++
		i += len(vb.text)
		switch a := arg.(type) {
		case string:
			// rendered when the tuple was built (with this very verb)
			if !strings.HasPrefix(s[pos:], a) {
				return false, true
			}
			pos += len(a)
		case uint64, *term.Term:
			if vb.verb == 's' {
				return nil, false
			}
			base := 10
			isDigit := func(c byte) bool { return c >= '0' && c <= '9' }
			if vb.verb == 'x' {
				base = 16
				isDigit = func(c byte) bool { return c >= '0' && c <= '9' || c >= 'a' && c <= 'f' }
			} else if vb.verb == 'X' {
				base = 16
				isDigit = func(c byte) bool { return c >= '0' && c <= '9' || c >= 'A' && c <= 'F' }
			}
			// the reading is unambiguous only if what follows cannot continue the digit run
			if i < len(f) && (f[i] == '%' || isDigit(f[i])) {
				return nil, false
			}
			st := pos
			for pos < len(s) && isDigit(s[pos]) {
				pos++
			}
			n := pos - st
			if n == 0 || n > 20 || n < vb.width {
				return false, true
			}
			if n > 1 && s[st] == '0' && n > vb.width {
				return false, true // a leading zero is padding, and padding never exceeds the width
			}
			val, err := strconv.ParseUint(s[st:pos], base, 64)
			if err != nil {
				return false, true
			}
			if tt, isT := a.(*term.Term); isT && tt.W < 64 && val>>uint(tt.W) != 0 {
				return false, true // the text names a number the argument's type cannot hold
			}
			acc = m.and(acc, m.equals(nil, a, val))
		default:
			return nil, false
		}
	}
	if pos != len(s) || ai != len(t.args) {
		return false, true
	}
	return acc, true
}

// tuplePart: a string operand of a concatenation as (format text, arguments).
func tuplePart(v value) (string, []value, bool) {
	switch v := v.(type) {
	case string:
		return strings.ReplaceAll(v, "%", "%%"), nil, true
	case *tstr:
		if strings.HasPrefix(v.format, "sym:") {
			return v.format[4:], v.args, true
		}
		if v.format == "%s-%d" {
			return v.format, v.args, true
		}
	}
	return "", nil, false
}

// canonTuple rewrites a tuple string as literal pieces around its integer arguments: concrete string
// arguments (rendered when the tuple was built) are inlined into the text. pieces has one more
// element than ints. ok is false for formats outside the plain vocabulary.
func canonTuple(t *tstr) (pieces []string, verbs []fmtVerb, ints []value, ok bool) {
	f := t.format
	if strings.HasPrefix(f, "sym:") {
		f = f[4:]
	} else if f != "%s-%d" {
		return nil, nil, nil, false
	}
	vs := simpleVerbs(f)
	if vs == nil && strings.Contains(strings.ReplaceAll(f, "%%", ""), "%") {
		return nil, nil, nil, false
	}
	cur := ""
	ai := 0
	for i := 0; i < len(f); {
		if f[i] != '%' {
			cur += string(f[i])
			i++
			continue
		}
		if i+1 < len(f) && f[i+1] == '%' {
			cur += "%"
			i += 2
			continue
		}
		if ai >= len(vs) || ai >= len(t.args) {
			return nil, nil, nil, false
		}
		vb := vs[ai]
		arg := t.args[ai]
		ai++
		i += len(vb.text)
		switch a := arg.(type) {
		case string:
			cur += a
		case uint64, *term.Term:
			if vb.verb == 's' {
				return nil, nil, nil, false
			}
			pieces = append(pieces, cur)
			cur = ""
			verbs = append(verbs, vb)
			ints = append(ints, a)
		default:
			return nil, nil, nil, false
		}
	}
	if ai != len(t.args) {
		return nil, nil, nil, false
	}
	pieces = append(pieces, cur)
	return pieces, verbs, ints, true
}

// tupleEqAcross compares two tuple strings built from different formats (e.g. by concatenation with
// different concrete prefixes). Both are brought into canonical form; the comparison is decided only
// as follows. Equal pieces: the strings are equal iff the numbers are - for one number always, for
// several only if the place of every number is fixed by the text around it (the piece before a
// number does not end, and the one after it does not begin, with a character that number could be
// written with, and no two numbers are adjacent). Different pieces: "not equal" is concluded only
// from a difference in a literal position (before the first or after the last number); anything
// subtler ends the path as unsupported.
func (m *Machine) tupleEqAcross(a, b *tstr) value {
	pa, va, ia, ok1 := canonTuple(a)
	pb, vb, ib, ok2 := canonTuple(b)
	if !ok1 || !ok2 {
		m.unsupported("comparison of tuple strings %q and %q", a.format, b.format)
	}
	fixed := func(ps []string, vs []fmtVerb) bool {
		for i, v := range vs {
			isDigit := func(c byte) bool { return c >= '0' && c <= '9' }
			switch v.verb {
			case 'x':
				isDigit = func(c byte) bool { return c >= '0' && c <= '9' || c >= 'a' && c <= 'f' }
			case 'X':
				isDigit = func(c byte) bool { return c >= '0' && c <= '9' || c >= 'A' && c <= 'F' }
			}
			before, after := ps[i], ps[i+1]
			if i > 0 && before == "" {
				return false
			}
			if before != "" && isDigit(before[len(before)-1]) {
				return false
			}
			if after != "" && isDigit(after[0]) {
				return false
			}
		}
		return true
	}
	// with a single number and equal text around it nothing can shift: P+r(n)+Q == P+r(m)+Q iff n == m
	if (len(ia) > 1 || len(ib) > 1) && (!fixed(pa, va) || !fixed(pb, vb)) {
		m.unsupported("comparison of tuple strings %q and %q: the place of a number is not fixed by the text", a.format, b.format)
	}
	same := len(ia) == len(ib)
	if same {
		for i := range pa {
			if pa[i] != pb[i] {
				same = false
				break
			}
		}
	}
	if !same {
		// the texts differ somewhere. They cannot denote the same string if they already differ in a
		// literal position: before the first number (neither first piece is a prefix of the other) or
		// after the last one (neither last piece is a suffix of the other). Anything subtler - digits of
		// a literal piece lining up with a number of the other string - is not decided.
		fa, fb := pa[0], pb[0]
		la, lb := pa[len(pa)-1], pb[len(pb)-1]
		if !strings.HasPrefix(fa, fb) && !strings.HasPrefix(fb, fa) {
			return false
		}
		if !strings.HasSuffix(la, lb) && !strings.HasSuffix(lb, la) {
			return false
		}
		m.unsupported("comparison of tuple strings %q and %q", a.format, b.format)
	}
	var acc value = true
	for i := range ia {
		if va[i].text != vb[i].text {
			m.unsupported("comparison of tuple strings with different number formats %q / %q", va[i].text, vb[i].text)
		}
		acc = m.and(acc, m.equals(nil, ia[i], ib[i]))
	}
	return acc
}
