//go:build verif

package pfcp

import (
	"github.com/free5gc/go-upf/internal/report"
)

// C13 (PFCP side): buffered packets are held per session and PDR in arrival order up to the
// queue capacity (newest dropped when full), a downlink-data notification is raised towards
// the owner when requested, and nothing of an ended session can be popped - also after the
// SEID is re-used.

type zzPkt struct {
	seid uint64
	pdr  uint16
	b    []byte
}

func zzC13Queue() {
	dp := &zzDP{}
	s := zzNewServer(dp)
	dp.ln = &s.lnode
	n := s.NewNode(zzNodeA, zzAddrA, dp)
	s.rnodes[zzNodeA] = n
	qlen := 1 + nondetChoice("qlen", 2+zzTier())
	// two sessions with the real constructor and a small capacity (the capacity is a parameter of the real API)
	var ss [2]*Sess
	for k := 0; k < 2; k++ {
		x := s.lnode.NewSess(uint64(0x80+k), qlen)
		x.rnode = n
		x.log = n.log
		n.sess[x.LocalID] = struct{}{}
		ss[k] = x
	}
	cnt := qlen + 1
	// ghost queues: accepted packets per (session, PDR)
	var acc []zzPkt
	sent := 0
	for i := 0; i < cnt; i++ {
		seid := uint64(1 + nondetChoice("seid", 2))
		pdr := nondetU16("pdr")
		action := nondetU16("action")
		plen := 2 * nondetChoice("plen", 2) // empty or 2 bytes
		payload := nondetBytes("payload", plen)
		sr := report.SessReport{SEID: seid, Reports: []report.Report{report.DLDReport{PDRID: pdr, Action: action, BufPkt: payload}}}
		s.ServeReport(&sr)
		live := seid == 1 || seid == 2
		// held?
		if live && action&report.APPLY_ACT_BUFF != 0 && plen > 0 {
			held := 0
			for _, a := range acc {
				if a.seid == seid && a.pdr == pdr {
					held++
				}
			}
			if held < qlen {
				acc = append(acc, zzPkt{seid, pdr, payload})
			} else {
				zzCover("C13.queue.overflow-dropped")
			}
		}
		// notification towards the owner iff NOCP (and the session exists)
		if live && action&report.APPLY_ACT_NOCP != 0 {
			zzAssert("C13.dldr.raised", zzSentCount() == sent+1)
			if zzSentCount() == sent+1 {
				b := zzSentBytes(sent)
				h := zzParseHdr(b)
				zzAssert("C13.dldr.is-report-request", h.ok && h.typ == 56 && h.seid == 0x80+(seid-1))
				zzAssert("C13.dldr.to-owner", zzSentAddr(sent).String() == zzAddrA.String())
				// Report Type DLDR (bit 1) and the PDR id inside the Downlink Data Report
				rt, okr := zzFindIE(b, h, 39)
				zzAssert("C13.dldr.report-type", okr && len(rt) == 1 && rt[0] == 0x01)
				dd, okd := zzFindIE(b, h, 83)
				zzAssert("C13.dldr.names-pdr", okd && len(dd) >= 6 && dd[0] == 0 && dd[1] == 56 && uint16(dd[4])<<8|uint16(dd[5]) == pdr)
			}
			zzCover("C13.dldr")
		} else {
			zzAssert("C13.dldr.not-raised", zzSentCount() == sent)
		}
		sent = zzSentCount()
	}
	// queue lengths as the ghost says, for the PDR ids that occurred
	for _, a := range acc {
		want := 0
		for _, x := range acc {
			if x.seid == a.seid && x.pdr == a.pdr {
				want++
			}
		}
		zzAssert("C13.queue.len", ss[a.seid-1].Len(a.pdr) == want)
	}
	// drain in arrival order through the handler entry point the driver uses
	for len(acc) > 0 {
		a := acc[0]
		pkt, ok := s.PopBufPkt(a.seid, a.pdr)
		zzAssert("C13.pop.available", ok)
		if ok {
			zzAssert("C13.pop.in-order-unchanged", zzSameBytes(pkt, a.b))
		}
		// remove the first entry of that (session, PDR) = a itself
		acc = acc[1:]
		// entries of other queues keep their relative order: re-scan from the head
	}
	for k := 0; k < 2; k++ {
		for id := range ss[k].q {
			_, ok := s.PopBufPkt(uint64(k+1), id)
			zzAssert("C13.pop.nothing-left", !ok)
		}
	}
	_, ok := s.PopBufPkt(nondetU64("other-seid"), nondetU16("other-pdr"))
	zzAssert("C13.pop.empty-everywhere", !ok)
	zzCover("C13.queue.done")
}

// after the session ends - and after its SEID is re-used - nothing of it can be popped
func zzC13Ended() {
	dp := &zzDP{}
	s := zzNewServer(dp)
	dp.ln = &s.lnode
	n := s.NewNode(zzNodeA, zzAddrA, dp)
	s.rnodes[zzNodeA] = n
	x := n.NewSess(0x90)
	pdr := nondetU16("pdr")
	sr := report.SessReport{SEID: x.LocalID, Reports: []report.Report{report.DLDReport{PDRID: pdr, Action: report.APPLY_ACT_BUFF, BufPkt: []byte{1, 2, 3}}}}
	s.ServeReport(&sr)
	zzAssert("C13.ended.held", x.Len(pdr) == 1)
	how := nondetChoice("how", 2)
	if how == 0 {
		zzDeliver(s, zzDelReq(x.LocalID, 5), zzAddrA, 5)
	} else {
		zzDeliver(s, zzAssocReq(5, zzNodeA), zzAddrA, 5)
	}
	_, ok := s.PopBufPkt(1, pdr)
	zzAssert("C13.ended.nothing-after-end", !ok)
	// a late notification for the ended session is dropped
	s.ServeReport(&sr)
	_, ok = s.PopBufPkt(1, pdr)
	zzAssert("C13.ended.late-notification-dropped", !ok)
	// SEID reuse
	y := s.rnodes[zzNodeA].NewSess(0x91)
	zzAssert("C13.ended.seid-reused", y.LocalID == 1)
	_, ok = s.PopBufPkt(1, pdr)
	zzAssert("C13.ended.nothing-after-reuse", !ok)
	// the new session buffers a packet of its own (same or another PDR id): exactly that packet
	// comes back, nothing of the ended session in front of or behind it
	pdr2 := pdr
	if nondetBool("other-pdr") {
		pdr2 = nondetU16("pdr2")
	}
	mine := []byte{9, 8, 7, 6}
	s.ServeReport(&report.SessReport{SEID: y.LocalID, Reports: []report.Report{report.DLDReport{PDRID: pdr2, Action: report.APPLY_ACT_BUFF, BufPkt: mine}}})
	zzAssert("C13.ended.reuse.holds-one", y.Len(pdr2) == 1)
	got, ok := s.PopBufPkt(y.LocalID, pdr2)
	zzAssert("C13.ended.reuse.own-packet-only", ok && zzSameBytes(got, mine))
	_, ok = s.PopBufPkt(y.LocalID, pdr2)
	zzAssert("C13.ended.reuse.nothing-else", !ok)
	// ... and a session of ANOTHER node created after the end gets nothing of it either
	nb := s.NewNode(zzNodeB, zzAddrB, dp)
	s.rnodes[zzNodeB] = nb
	z := nb.NewSess(0x92)
	s.ServeReport(&report.SessReport{SEID: z.LocalID, Reports: []report.Report{report.DLDReport{PDRID: pdr, Action: report.APPLY_ACT_BUFF, BufPkt: mine}}})
	got, ok = s.PopBufPkt(z.LocalID, pdr)
	zzAssert("C13.ended.other-node.own-packet-only", ok && zzSameBytes(got, mine))
	_, ok = s.PopBufPkt(z.LocalID, pdr)
	zzAssert("C13.ended.other-node.nothing-else", !ok)
	zzCover("C13.ended.done")
}

// the production capacity (RemoteNode.NewSess passes BUFFQ_LEN): one concrete run
func zzC13Capacity() {
	dp := &zzDP{}
	s := zzNewServer(dp)
	dp.ln = &s.lnode
	n := s.NewNode(zzNodeA, zzAddrA, dp)
	s.rnodes[zzNodeA] = n
	x := n.NewSess(0x90)
	for i := 0; i < BUFFQ_LEN+1; i++ {
		x.Push(7, []byte{byte(i), byte(i >> 8)})
	}
	zzAssert("C13.capacity.full-not-more", x.Len(7) == BUFFQ_LEN)
	p, ok := x.Pop(7)
	zzAssert("C13.capacity.oldest-first", ok && len(p) == 2 && p[0] == 0 && p[1] == 0)
	for i := 1; i < BUFFQ_LEN; i++ {
		p, ok = x.Pop(7)
	}
	zzAssert("C13.capacity.newest-was-dropped", ok && p[0] == byte((BUFFQ_LEN-1)&0xff) && p[1] == byte((BUFFQ_LEN-1)>>8))
	_, ok = x.Pop(7)
	zzAssert("C13.capacity.empty", !ok)
	zzCover("C13.capacity.done")
}

// notifications for sessions that do not exist are dropped without effect
func zzC13Unknown() {
	dp := &zzDP{}
	s := zzNewServer(dp)
	dp.ln = &s.lnode
	n := s.NewNode(zzNodeA, zzAddrA, dp)
	s.rnodes[zzNodeA] = n
	x := n.NewSess(0x90)
	seid := nondetU64("seid")
	zzAssume(seid != 1)
	sr := report.SessReport{SEID: seid, Reports: []report.Report{report.DLDReport{PDRID: nondetU16("pdr"), Action: nondetU16("action"), BufPkt: []byte{9}}}}
	s.ServeReport(&sr)
	zzAssert("C13.unknown.nothing-sent", zzSentCount() == 0)
	zzAssert("C13.unknown.nothing-held", len(x.q) == 0)
	zzCover("C13.unknown.done")
}

func ZZ_C13_Unknown()  { zzC13Unknown() }
func ZZ_C13_Queue()    { zzC13Queue() }
func ZZ_C13_Ended()    { zzC13Ended() }
func ZZ_C13_Capacity() { zzC13Capacity() }

// SEID re-use with more than one SEID free: three sessions, two of them deleted (in either order),
// two new sessions established. The new sessions must be different sessions under different SEIDs,
// and a packet buffered for one of them is held and released by that one alone.
func zzC13ReuseTwo() {
	dp := &zzDP{}
	s := zzNewServer(dp)
	dp.ln = &s.lnode
	n := s.NewNode(zzNodeA, zzAddrA, dp)
	s.rnodes[zzNodeA] = n
	a, b, c := n.NewSess(0x90), n.NewSess(0x91), n.NewSess(0x92)
	first, second := a, b
	if nondetBool("delete-b-first") {
		first, second = b, a
	}
	zzDeliver(s, zzDelReq(first.LocalID, 5), zzAddrA, 5)
	zzDeliver(s, zzDelReq(second.LocalID, 6), zzAddrA, 6)
	d, e := n.NewSess(0x93), n.NewSess(0x94)
	zzAssert("C13.reuse-two.distinct-seids", d.LocalID != e.LocalID && d.LocalID != c.LocalID && e.LocalID != c.LocalID)
	gd, err1 := s.lnode.Sess(d.LocalID)
	ge, err2 := s.lnode.Sess(e.LocalID)
	zzAssert("C13.reuse-two.each-resolves-to-itself", err1 == nil && err2 == nil && gd == d && ge == e)
	pdr := nondetU16("pdr")
	target := d
	other := e
	if nondetBool("buffer-for-the-second") {
		target, other = e, d
	}
	s.ServeReport(&report.SessReport{SEID: target.LocalID, Reports: []report.Report{report.DLDReport{PDRID: pdr, Action: report.APPLY_ACT_BUFF, BufPkt: []byte{4, 5, 6}}}})
	zzAssert("C13.reuse-two.held-by-its-session", target.Len(pdr) == 1 && other.Len(pdr) == 0 && c.Len(pdr) == 0)
	_, ok := s.PopBufPkt(other.LocalID, pdr)
	zzAssert("C13.reuse-two.not-released-under-the-other-session", !ok)
	pkt, ok := s.PopBufPkt(target.LocalID, pdr)
	zzAssert("C13.reuse-two.released-under-its-own", ok && len(pkt) == 3 && pkt[0] == 4)
	zzCover("C13.reuse-two.done")
}

func ZZ_C13_ReuseTwo() { zzC13ReuseTwo() }

// The data plane hands the handler views into a receive buffer that it re-uses for the next
// notification (gtp5g: BufPkt is a slice of the netlink message body). A held packet must not change
// when that buffer is overwritten afterwards: two notifications out of ONE backing array, the second
// written over the first, then both released.
func zzC13SharedBuffer() {
	dp := &zzDP{}
	s := zzNewServer(dp)
	dp.ln = &s.lnode
	n := s.NewNode(zzNodeA, zzAddrA, dp)
	s.rnodes[zzNodeA] = n
	x := s.lnode.NewSess(0x80, 2)
	x.rnode = n
	x.log = n.log
	n.sess[x.LocalID] = struct{}{}
	pdr := nondetU16("pdr")
	pdr2 := pdr
	if nondetChoice("other-pdr", 2) == 1 {
		pdr2 = pdr + 1
	}
	buf := make([]byte, 4)
	p1 := nondetBytes("first", 2)
	p2 := nondetBytes("second", 2)
	want1 := []byte{p1[0], p1[1]}
	want2 := []byte{p2[0], p2[1]}
	copy(buf, p1)
	sr := report.SessReport{SEID: x.LocalID, Reports: []report.Report{report.DLDReport{PDRID: pdr, Action: report.APPLY_ACT_BUFF, BufPkt: buf[:2]}}}
	s.ServeReport(&sr)
	// the receive buffer is re-used for the next notification
	copy(buf, p2)
	sr2 := report.SessReport{SEID: x.LocalID, Reports: []report.Report{report.DLDReport{PDRID: pdr2, Action: report.APPLY_ACT_BUFF, BufPkt: buf[:2]}}}
	s.ServeReport(&sr2)
	// ... and once more after both are held
	buf[0], buf[1], buf[2], buf[3] = 0xee, 0xee, 0xee, 0xee
	a, ok := s.PopBufPkt(x.LocalID, pdr)
	zzAssert("C13.shared.first-available", ok)
	if ok {
		zzAssert("C13.shared.first-unchanged", zzSameBytes(a, want1))
	}
	b, ok2 := s.PopBufPkt(x.LocalID, pdr2)
	zzAssert("C13.shared.second-available", ok2)
	if ok2 {
		zzAssert("C13.shared.second-unchanged", zzSameBytes(b, want2))
	}
	zzCover("C13.shared.done")
}

func ZZ_C13_SharedBuffer() { zzC13SharedBuffer() }
