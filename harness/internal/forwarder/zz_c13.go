//go:build verif

package forwarder

import (
	"net"

	"github.com/khirono/go-nl"
	"github.com/wmnsk/go-pfcp/ie"

	"github.com/free5gc/go-gtp5gnl"
	"github.com/free5gc/go-upf/internal/report"
)

// C13 (data-plane side): buffer notifications are decoded and handed up unchanged; when the FAR
// switches from buffering to forwarding the held packets are re-injected once each, in order,
// towards the FAR's peer with its TEID and the session's QFI; to drop they are discarded; packets
// of other sessions / PDRs are never touched.

type zzBufHandler struct {
	got    []report.SessReport
	q      map[uint64][][]byte // seid<<16|pdr -> packets
	popped []uint64
}

func (h *zzBufHandler) NotifySessReport(sr report.SessReport) { h.got = append(h.got, sr) }
func (h *zzBufHandler) PopBufPkt(seid uint64, pdr uint16) ([]byte, bool) {
	k := seid<<16 | uint64(pdr)
	h.popped = append(h.popped, k)
	q := h.q[k]
	if len(q) == 0 {
		return nil, false
	}
	h.q[k] = q[1:]
	return q[0], true
}

// ---- BUFFER notification decoding ----

func zzC13Notify() {
	g := zzGtp5g(7)
	h := &zzBufHandler{}
	g.bsnl.Handle(h)
	seid := nondetU64("seid")
	pdr := nondetU16("pdr")
	action := nondetU16("action")
	n := 1 + nondetChoice("plen", 4)
	pkt := nondetBytes("payload", n)
	order := nondetChoice("attr-order", 2)
	al := nl.AttrList{
		{Type: gtp5gnl.BUFFER_ID, Value: nl.AttrU16(pdr)},
		{Type: gtp5gnl.BUFFER_ACTION, Value: nl.AttrU16(action)},
		{Type: gtp5gnl.BUFFER_SEID, Value: nl.AttrU64(seid)},
		{Type: gtp5gnl.BUFFER_PACKET, Value: nl.AttrBytes(pkt)},
	}
	if order == 1 {
		al = nl.AttrList{al[3], al[2], al[1], al[0]}
	}
	body := append([]byte{gtp5gnl.CMD_BUFFER_GTPU, 0, 0, 0}, zzEncAttrs(nl.AttrList{{Type: gtp5gnl.BUFFER, Value: al}})...)
	ok := g.bsnl.ServeMsg(&nl.Msg{Header: nl.Header{Type: zzFamilyID}, Body: body})
	zzAssert("C13.notify.accepted", ok)
	zzAssert("C13.notify.one-report", len(h.got) == 1)
	if len(h.got) != 1 {
		return
	}
	sr := h.got[0]
	zzAssert("C13.notify.seid", sr.SEID == seid)
	zzAssert("C13.notify.one-dldr", len(sr.Reports) == 1)
	d, isD := sr.Reports[0].(report.DLDReport)
	zzAssert("C13.notify.type", isD)
	if isD {
		zzAssert("C13.notify.pdr", d.PDRID == pdr)
		zzAssert("C13.notify.action", d.Action == action)
		zzAssert("C13.notify.payload-unchanged", len(d.BufPkt) == n)
		if len(d.BufPkt) == n {
			for i := range pkt {
				zzAssert("C13.notify.payload-byte", d.BufPkt[i] == pkt[i])
			}
		}
	}
	zzCover("C13.notify.done")
}

// ---- release on Update FAR ----

type zzFARRec struct {
	action   uint16
	pdrs     []uint16
	creation bool
	teid     uint32
	peer     int // 0/1 -> 127.0.0.1 / 127.0.0.2
	qfi      [2]uint8
	nqer     int
	// the second related PDR (11) has QERs of its own: none, or one with its own QFI
	nqer2 int
	qfi2  uint8
}

func zzFARMsg(seid uint64, farid uint32, f *zzFARRec) []nl.Msg {
	al := nl.AttrList{
		{Type: gtp5gnl.FAR_ID, Value: nl.AttrU32(farid)},
		{Type: gtp5gnl.FAR_SEID, Value: nl.AttrU64(seid)},
		{Type: gtp5gnl.FAR_APPLY_ACTION, Value: nl.AttrU16(f.action)},
	}
	if len(f.pdrs) > 0 {
		b := make([]byte, 2*len(f.pdrs))
		for i, p := range f.pdrs {
			b[2*i], b[2*i+1] = byte(p), byte(p>>8)
		}
		al = append(al, nl.Attr{Type: gtp5gnl.FAR_RELATED_TO_PDR, Value: nl.AttrBytes(b)})
	}
	if f.creation {
		al = append(al, nl.Attr{Type: gtp5gnl.FAR_FORWARDING_PARAMETER, Value: nl.AttrList{
			{Type: gtp5gnl.FORWARDING_PARAMETER_OUTER_HEADER_CREATION, Value: nl.AttrList{
				{Type: gtp5gnl.OUTER_HEADER_CREATION_DESCRIPTION, Value: nl.AttrU16(0x0100)},
				{Type: gtp5gnl.OUTER_HEADER_CREATION_O_TEID, Value: nl.AttrU32(f.teid)},
				{Type: gtp5gnl.OUTER_HEADER_CREATION_PEER_ADDR_IPV4, Value: nl.AttrBytes([]byte{127, 0, 0, byte(1 + f.peer)})},
				{Type: gtp5gnl.OUTER_HEADER_CREATION_PORT, Value: nl.AttrU16(2152)},
			}},
		}})
	}
	body := append([]byte{0, 0, 0, 0}, zzEncAttrs(al)...)
	return []nl.Msg{{Header: nl.Header{Type: zzFamilyID, Pid: 1}, Body: body}}
}

func zzPDRMsg(seid uint64, pdr uint16, qers []uint32) []nl.Msg {
	al := nl.AttrList{
		{Type: gtp5gnl.PDR_ID, Value: nl.AttrU16(pdr)},
		{Type: gtp5gnl.PDR_SEID, Value: nl.AttrU64(seid)},
	}
	for _, q := range qers {
		al = append(al, nl.Attr{Type: gtp5gnl.PDR_QER_ID, Value: nl.AttrU32(q)})
	}
	body := append([]byte{0, 0, 0, 0}, zzEncAttrs(al)...)
	return []nl.Msg{{Header: nl.Header{Type: zzFamilyID, Pid: 1}, Body: body}}
}

func zzQERMsg(seid uint64, id uint32, qfi uint8) []nl.Msg {
	al := nl.AttrList{
		{Type: gtp5gnl.QER_ID, Value: nl.AttrU32(id)},
		{Type: gtp5gnl.QER_SEID, Value: nl.AttrU64(seid)},
		{Type: gtp5gnl.QER_QFI, Value: nl.AttrU8(qfi)},
	}
	body := append([]byte{0, 0, 0, 0}, zzEncAttrs(al)...)
	return []nl.Msg{{Header: nl.Header{Type: zzFamilyID, Pid: 1}, Body: body}}
}

func zzC13Release() {
	k := zzInstallKernel()
	g := zzGtp5g(7)
	conn := zzGTPConn()
	h := &zzBufHandler{q: make(map[uint64][][]byte)}
	g.bsnl.Handle(h)
	seid := nondetU64("seid")
	farid := nondetU32("farid")
	// the FAR as the kernel knows it
	f := &zzFARRec{action: nondetU16("kernel-action"), creation: nondetChoice("creation", 2) == 1, teid: nondetU32("teid"), peer: nondetChoice("peer", 2)}
	npdr := 1 + nondetChoice("npdr", 2)
	for i := 0; i < npdr; i++ {
		f.pdrs = append(f.pdrs, uint16(10+i))
	}
	f.nqer = nondetChoice("nqer", 3)
	for i := 0; i < f.nqer; i++ {
		f.qfi[i] = nondetU8("qfi")
		zzAssume(f.qfi[i] < 64)
	}
	if npdr == 2 {
		f.nqer2 = nondetChoice("nqer-of-second-pdr", 2)
		if f.nqer2 == 1 {
			f.qfi2 = nondetU8("qfi-of-second-pdr")
			zzAssume(f.qfi2 < 64)
		}
	}
	// held packets: two for PDR 10, one for PDR 11 (if related), one for an unrelated PDR and one for another session
	own := func(p uint16) uint64 { return seid<<16 | uint64(p) }
	p0 := nondetBytes("pkt0", 2)
	p1 := nondetBytes("pkt1", 1)
	p2 := nondetBytes("pkt2", 2)
	h.q[own(10)] = [][]byte{p0, p1}
	h.q[own(11)] = [][]byte{p2}
	h.q[own(99)] = [][]byte{{0x99}}
	otherSeid := seid + 1
	h.q[otherSeid<<16|10] = [][]byte{{0x77}}
	getFarIDs := []uint32{}
	updates := 0
	k.reply = func(k *zzKernel, r zzReq) ([]nl.Msg, error) {
		attrs := r.b[4:]
		switch r.b[0] {
		case gtp5gnl.CMD_GET_FAR:
			id, _ := zzFindAttr(attrs, gtp5gnl.FAR_ID, 0)
			s, _ := zzFindAttr(attrs, gtp5gnl.FAR_SEID, 0)
			zzAssert("C13.release.get-far.own-session", len(s) == 8 && zzLE64(s) == seid)
			getFarIDs = append(getFarIDs, zzLE32(id))
			return zzFARMsg(seid, farid, f), nil
		case gtp5gnl.CMD_ADD_FAR:
			// the update itself: must address the FAR named in the IE, whatever was looked up before
			id, ok1 := zzFindAttr(attrs, gtp5gnl.FAR_ID, 0)
			s, ok2 := zzFindAttr(attrs, gtp5gnl.FAR_SEID, 0)
			zzAssert("C13.release.update-addresses-the-far", ok1 && ok2 && len(id) == 4 && len(s) == 8 && zzLE32(id) == farid && zzLE64(s) == seid)
			updates++
			return nil, nil
		case gtp5gnl.CMD_GET_PDR:
			s, _ := zzFindAttr(attrs, gtp5gnl.PDR_SEID, 0)
			zzAssert("C13.release.get-pdr.own-session", len(s) == 8 && zzLE64(s) == seid)
			id, _ := zzFindAttr(attrs, gtp5gnl.PDR_ID, 0)
			var qs []uint32
			if zzLE16(id) == 11 {
				if f.nqer2 == 1 {
					qs = append(qs, 30)
				}
			} else {
				for i := 0; i < f.nqer; i++ {
					qs = append(qs, uint32(20+i))
				}
			}
			return zzPDRMsg(seid, uint16(zzLE16(id)), qs), nil
		case gtp5gnl.CMD_GET_QER:
			id, _ := zzFindAttr(attrs, gtp5gnl.QER_ID, 0)
			q := zzLE32(id)
			if q == 30 {
				return zzQERMsg(seid, q, f.qfi2), nil
			}
			return zzQERMsg(seid, q, f.qfi[q-20]), nil
		}
		return nil, nil
	}
	// the Update FAR: new apply action symbolic, FAR ID before or after the Apply Action IE
	newAct := nondetBytes("new-action", 2)
	fid := []byte{byte(farid >> 24), byte(farid >> 16), byte(farid >> 8), byte(farid)}
	kids := []*ie.IE{ie.New(ie.FARID, fid), ie.New(ie.ApplyAction, newAct)}
	if nondetChoice("action-first", 2) == 1 {
		kids = []*ie.IE{kids[1], kids[0]}
		zzCover("C13.release.action-before-farid")
	}
	err := g.UpdateFAR(seid, ie.NewGroupedIE(ie.UpdateFAR, kids...))
	zzAssert("C13.release.update-accepted", err == nil)
	// the FAR looked up is the FAR being updated, whatever the IE order
	for _, id := range getFarIDs {
		zzAssert("C13.release.looks-up-the-updated-far", id == farid)
	}
	zzAssert("C13.release.looked-up-once", len(getFarIDs) == 1)
	zzAssert("C13.release.one-update-request", updates == 1)
	// never a packet of another session or of a PDR the FAR does not serve
	for _, kk := range h.popped {
		rel := false
		for _, p := range f.pdrs {
			if kk == own(p) {
				rel = true
			}
		}
		zzAssert("C13.release.only-own-related-queues", rel)
	}
	zzAssert("C13.release.other-session-untouched", len(h.q[otherSeid<<16|10]) == 1)
	zzAssert("C13.release.unrelated-pdr-untouched", len(h.q[own(99)]) == 1)
	nsent := zzSentCountOn(conn)
	buff := f.action&report.APPLY_ACT_BUFF != 0
	drop := newAct[0]&0x01 != 0
	forw := newAct[0]&0x02 != 0
	held := [][]byte{p0, p1}
	if npdr == 2 {
		held = append(held, p2)
	}
	switch {
	case !buff:
		zzAssert("C13.release.not-buffering.untouched", len(h.popped) == 0 && nsent == 0)
		zzCover("C13.release.not-buffering")
	case drop:
		zzAssert("C13.release.drop.discarded", len(h.q[own(10)]) == 0 && (npdr < 2 || len(h.q[own(11)]) == 0))
		zzAssert("C13.release.drop.nothing-emitted", nsent == 0)
		zzCover("C13.release.drop")
	case forw:
		zzAssert("C13.release.forw.queues-drained", len(h.q[own(10)]) == 0 && (npdr < 2 || len(h.q[own(11)]) == 0))
		if !f.creation {
			// no outer header creation: the packets cannot be re-injected and are discarded
			zzAssert("C13.release.forw.no-tunnel.nothing-emitted", nsent == 0)
			zzCover("C13.release.forw-no-tunnel")
			break
		}
		zzAssert("C13.release.forw.each-once", nsent == len(held))
		// the packet's QFI: the first non-zero QFI among the QERs of ITS OWN PDR
		qfi1 := uint8(0)
		hasQ1 := false
		for i := 0; i < f.nqer; i++ {
			if f.qfi[i] != 0 {
				qfi1, hasQ1 = f.qfi[i], true
				break
			}
		}
		for i := 0; i < nsent && i < len(held); i++ {
			qfi, hasQ := qfi1, hasQ1
			if i == 2 {
				// the third held packet belongs to PDR 11
				qfi, hasQ = f.qfi2, f.nqer2 == 1 && f.qfi2 != 0
			}
			b := zzSentBytesOn(conn, i)
			zzObserve("gpdu", b)
			want := []byte{127, 0, 0, byte(1 + f.peer)}
			to := zzSentAddrOn(conn, i)
			zzAssert("C13.release.forw.to-peer", to.String() == (&net.UDPAddr{IP: want, Port: 2152}).String())
			hl := 12
			if hasQ {
				hl = 16
			}
			zzAssert("C13.release.forw.length", len(b) == hl+len(held[i]))
			if len(b) != hl+len(held[i]) {
				continue
			}
			zzAssert("C13.release.forw.gpdu", b[0] == 0x34 && b[1] == 255 && int(b[2])<<8|int(b[3]) == len(b)-8)
			zzAssert("C13.release.forw.teid", zzBE32(b[4:8]) == f.teid)
			if hasQ {
				zzAssert("C13.release.forw.qfi", b[11] == 0x85 && b[12] == 1 && b[14] == qfi && b[15] == 0)
			} else {
				zzAssert("C13.release.forw.no-ext", b[11] == 0)
			}
			for j := range held[i] {
				zzAssert("C13.release.forw.payload-in-order", b[hl+j] == held[i][j])
			}
		}
		zzCover("C13.release.forw")
	default:
		zzAssert("C13.release.keep.untouched", len(h.q[own(10)]) == 2 && len(h.q[own(11)]) == 1 && nsent == 0)
		zzCover("C13.release.keep")
	}
	zzCover("C13.release.done")
}

func ZZ_C13_Notify()  { zzC13Notify() }
func ZZ_C13_Release() { zzC13Release() }
