//go:build verif

package forwarder

import (
	"github.com/khirono/go-nl"
	"github.com/wmnsk/go-pfcp/ie"

	"github.com/free5gc/go-gtp5gnl"
)

// C15, batching: however many URRs are registered, the periodic query asks for each exactly
// once, split into netlink requests that respect the per-message limit.

func zzC15Batch(n int) {
	k := zzInstallKernel()
	limit := gtp5gnl.MaxNetlinkUsageReportNum()
	zzAssert("C15.batch.limit-positive", limit > 0)
	asked := make(map[uint64]int) // seid<<32|urr -> times asked
	k.reply = func(k *zzKernel, r zzReq) ([]nl.Msg, error) {
		zzAssert("C15.batch.cmd", len(r.b) >= 4 && r.b[0] == gtp5gnl.CMD_GET_MULTI_REPORTS)
		attrs := r.b[4:]
		zzWalk("URR", "", attrs, "batch")
		num, ok := zzFindAttr(attrs, gtp5gnl.URR_NUM, 0)
		cnt := zzCountAttr(attrs, gtp5gnl.URR_MULTI_SEID_URRID)
		zzAssert("C15.batch.urr-num-matches", ok && len(num) == 4 && int(zzLE32(num)) == cnt)
		zzAssert("C15.batch.within-limit", cnt >= 1 && cnt <= limit)
		var rs []zzRep
		for i := 0; i < cnt; i++ {
			e, _ := zzFindAttr(attrs, gtp5gnl.URR_MULTI_SEID_URRID, i)
			u, ok1 := zzFindAttr(e, gtp5gnl.URR_ID, 0)
			s, ok2 := zzFindAttr(e, gtp5gnl.URR_SEID, 0)
			zzAssert("C15.batch.entry", ok1 && ok2 && len(u) == 4 && len(s) == 8)
			if !ok1 || !ok2 {
				continue
			}
			asked[zzLE64(s)<<32|uint64(zzLE32(u))]++
			rs = append(rs, zzRep{urr: zzLE32(u), seid: zzLE64(s)})
		}
		return zzReportsMsg(rs), nil
	}
	g := zzGtp5g(7)
	in := make(map[uint64][]uint32)
	for i := 0; i < n; i++ {
		seid := uint64(1 + i%3)
		in[seid] = append(in[seid], uint32(1000+i))
	}
	out, err := g.psQueryURR(in)
	zzAssert("C15.batch.no-error", err == nil)
	wantReqs := (n + limit - 1) / limit
	zzAssert("C15.batch.request-count", len(k.reqs) == wantReqs)
	total := 0
	for seid, ids := range in {
		for _, id := range ids {
			zzAssert("C15.batch.each-urr-asked-once", asked[seid<<32|uint64(id)] == 1)
			total++
		}
		// each report delivered once under its own SEID
		zzAssert("C15.batch.reports-per-seid", len(out[seid]) == len(ids))
		for _, id := range ids {
			c := 0
			for _, r := range out[seid] {
				if r.URRID == id {
					c++
				}
			}
			zzAssert("C15.batch.report-once", c == 1)
		}
	}
	zzAssert("C15.batch.nothing-else-asked", len(asked) == total)
	zzCover("C15.batch.done")
}

func ZZ_C15_Batch() {
	limit := gtp5gnl.MaxNetlinkUsageReportNum()
	sizes := []int{1, limit - 1, limit, limit + 1, 2 * limit, 2*limit + 1}
	zzC15Batch(sizes[nondetChoice("size", len(sizes))])
}

// C15, "URR removal always unregisters": Gtp5g.RemoveURR must take the URR out of the periodic
// registration whatever the kernel says about the removal itself - a final report, no report, or an
// error (the rule was never installed, netlink failure) - otherwise ticks keep querying a URR that
// the control plane has dropped.
func zzC15RemoveUnregisters() {
	k := zzInstallKernel()
	g := zzGtp5g(7)
	seid := nondetU64("seid")
	id := nondetBytes("urrid", 4)
	urr := uint32(id[0])<<24 | uint32(id[1])<<16 | uint32(id[2])<<8 | uint32(id[3])
	outcome := nondetChoice("kernel-answer", 3)
	k.reply = func(k *zzKernel, r zzReq) ([]nl.Msg, error) {
		switch outcome {
		case 0:
			return zzReportsMsg([]zzRep{{urr: urr, seid: seid}}), nil
		case 1:
			return nil, nil
		}
		return nil, errZZNoEnt
	}
	zzPerio().ZZDrain()
	g.RemoveURR(seid, ie.NewGroupedIE(ie.RemoveURR, ie.New(ie.URRID, id)))
	evs := zzPerio().ZZDrain()
	n := 0
	for _, e := range evs {
		if e.Type == 2 && e.SEID == seid && e.URRID == urr {
			n++
		} else {
			zzAssert("C15.remove.no-other-event", false)
		}
	}
	zzAssert("C15.remove.unregistered-whatever-the-kernel-answers", n == 1)
	zzCover("C15.remove.done")
}

func ZZ_C15_RemoveUnregisters() { zzC15RemoveUnregisters() }
