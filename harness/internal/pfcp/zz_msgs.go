//go:build verif

package pfcp

import (
	"net"
	"time"

	"github.com/wmnsk/go-pfcp/ie"
	"github.com/wmnsk/go-pfcp/message"
)

// Message builders (go-pfcp constructors, symbolic field values).

func zzModReq(seid uint64, seq uint32, ies ...*ie.IE) *message.SessionModificationRequest {
	return message.NewSessionModificationRequest(0, 0, seid, seq, 0, ies...)
}

func zzDelReq(seid uint64, seq uint32, ies ...*ie.IE) *message.SessionDeletionRequest {
	return message.NewSessionDeletionRequest(0, 0, seid, seq, 0, ies...)
}

func zzEstReq(seq uint32, ies ...*ie.IE) *message.SessionEstablishmentRequest {
	return message.NewSessionEstablishmentRequest(0, 0, 0, seq, 0, ies...)
}

// zzDeliver hands a request to the server the way main does for a first copy:
// an RX transaction is created, then the request is dispatched.
func zzDeliver(s *PfcpServer, msg message.Message, addr net.Addr, seq uint32) {
	// what the event loop does for a first copy of a request: a new receive transaction, registered
	// under the id the implementation itself gave it (the harness never spells a transaction key)
	rx := NewRxTransaction(s, addr, seq)
	s.rxTrans[rx.id] = rx
	err := s.reqDispacher(msg, addr)
	_ = err
}

func zzAssocReq(seq uint32, nodeID string) *message.AssociationSetupRequest {
	return message.NewAssociationSetupRequest(seq, ie.NewNodeID(nodeID, "", ""))
}

func zzHbReq(seq uint32) *message.HeartbeatRequest {
	return message.NewHeartbeatRequest(seq, ie.NewRecoveryTimeStamp(time.Unix(1700000000, 0)), nil)
}

func zzAssocReqNoNode(seq uint32) *message.AssociationSetupRequest {
	return message.NewAssociationSetupRequest(seq, ie.NewRecoveryTimeStamp(time.Unix(1700000000, 0)))
}

func zzMarshal(m message.Message) []byte {
	b := make([]byte, m.MarshalLen())
	if err := m.MarshalTo(b); err != nil {
		panic("zzMarshal: " + err.Error())
	}
	return b
}

func zzDuration(ns int64) time.Duration { return time.Duration(ns) }
