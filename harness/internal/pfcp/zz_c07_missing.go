//go:build verif

package pfcp

import (
	"time"

	"github.com/wmnsk/go-pfcp/ie"
	"github.com/wmnsk/go-pfcp/message"

	"github.com/free5gc/go-upf/internal/forwarder"
	"github.com/free5gc/go-upf/internal/report"
)

// C07 (d): missing IEs. A well-formed request of the associated peer from which the solver removes
// up to K information elements - any top-level IE (Node ID, CP F-SEID, a whole Create/Update/Remove
// group) or any child of a group, including the nested PDI and Forwarding Parameters groups and
// their children - goes through the real event loop with both drivers. Whatever is missing, the
// UPF must not panic or exit, a Heartbeat must still be answered and the bystander session must be
// intact. (What the answer to such a request must look like is C08's business.)

type zzTree struct {
	x    *ie.IE
	kids []*zzTree // for grouped IEs
}

func zzT(x *ie.IE, kids ...*zzTree) *zzTree { return &zzTree{x: x, kids: kids} }

func zzG(typ uint16, kids ...*zzTree) *zzTree { return &zzTree{x: ie.NewGroupedIE(typ), kids: kids} }

// count: number of removable nodes (every node of the forest)
func zzCount(ts []*zzTree) int {
	n := 0
	for _, t := range ts {
		n += 1 + zzCount(t.kids)
	}
	return n
}

// build: the IEs with the nodes whose pre-order index is in drop removed
func zzBuild(ts []*zzTree, idx *int, drop [3]int) []*ie.IE {
	var out []*ie.IE
	for _, t := range ts {
		me := *idx
		*idx++
		gone := me == drop[0] || me == drop[1] || me == drop[2]
		var kids []*ie.IE
		if t.kids != nil {
			kids = zzBuild(t.kids, idx, drop)
		}
		if gone {
			continue
		}
		if t.kids != nil {
			out = append(out, ie.NewGroupedIE(t.x.Type, kids...))
		} else {
			out = append(out, t.x)
		}
	}
	return out
}

func zzEstForest() []*zzTree {
	return []*zzTree{
		zzT(ie.NewNodeID(zzNodeA, "", "")),
		zzT(ie.NewFSEID(0x71, []byte{127, 0, 0, 1}, nil)),
		zzG(ie.CreateFAR, zzT(ie.NewFARID(1)), zzT(ie.NewApplyAction(2)),
			zzG(ie.ForwardingParameters, zzT(ie.NewDestinationInterface(ie.DstInterfaceAccess)), zzT(ie.NewOuterHeaderCreation(0x0100, 1, "10.0.0.1", "", 0, 0, 0)))),
		zzG(ie.CreateQER, zzT(ie.NewQERID(1)), zzT(ie.NewGateStatus(0, 0)), zzT(ie.NewQFI(9))),
		// periodic and volume-threshold reporting
		zzG(ie.CreateURR, zzT(ie.NewURRID(1)), zzT(ie.NewMeasurementMethod(0, 1, 0)), zzT(ie.NewReportingTriggers(0x03, 0)), zzT(ie.NewMeasurementPeriod(60*time.Second)), zzT(ie.NewVolumeThreshold(1, 1000, 0, 0))),
		zzG(ie.CreateBAR, zzT(ie.NewBARID(1))),
		zzG(ie.CreatePDR, zzT(ie.NewPDRID(1)), zzT(ie.NewPrecedence(1)), zzT(ie.NewFARID(1)), zzT(ie.NewQERID(1)), zzT(ie.NewURRID(1)),
			zzG(ie.PDI, zzT(ie.NewSourceInterface(ie.SrcInterfaceCore)), zzT(ie.NewUEIPAddress(2, "10.60.0.1", "", 0, 0)),
				zzT(ie.NewSDFFilter("permit out ip from any to assigned", "", "", "", 1)))),
	}
}

func zzModForest() []*zzTree {
	return []*zzTree{
		zzG(ie.UpdateFAR, zzT(ie.NewFARID(1)), zzT(ie.NewApplyAction(2)),
			zzG(ie.UpdateForwardingParameters, zzT(ie.NewDestinationInterface(ie.DstInterfaceAccess)), zzT(ie.NewOuterHeaderCreation(0x0100, 2, "10.0.0.2", "", 0, 0, 0)))),
		zzG(ie.UpdateQER, zzT(ie.NewQERID(1)), zzT(ie.NewGateStatus(1, 1))),
		zzG(ie.UpdateURR, zzT(ie.NewURRID(1)), zzT(ie.NewMeasurementMethod(0, 1, 0)), zzT(ie.NewReportingTriggers(0x02, 0))),
		zzG(ie.UpdateBARWithinSessionModificationRequest, zzT(ie.NewBARID(1))),
		zzG(ie.UpdatePDR, zzT(ie.NewPDRID(1)), zzT(ie.NewPrecedence(2)), zzT(ie.NewFARID(1)), zzT(ie.NewURRID(1)),
			zzG(ie.PDI, zzT(ie.NewSourceInterface(ie.SrcInterfaceCore)), zzT(ie.NewUEIPAddress(2, "10.60.0.1", "", 0, 0)))),
		zzG(ie.QueryURR, zzT(ie.NewURRID(1))),
		zzG(ie.CreateFAR, zzT(ie.NewFARID(2)), zzT(ie.NewApplyAction(1))),
		zzG(ie.RemoveURR, zzT(ie.NewURRID(1))),
		zzG(ie.RemovePDR, zzT(ie.NewPDRID(1))),
		zzG(ie.RemoveQER, zzT(ie.NewQERID(1))),
		zzG(ie.RemoveBAR, zzT(ie.NewBARID(1))),
		zzG(ie.RemoveFAR, zzT(ie.NewFARID(1))),
	}
}

func zzC07Missing(gtp5g bool, k int) {
	drv := "empty"
	if gtp5g {
		drv = "gtp5g"
	}
	lp := &zzLoop{zzWorld: zzNewWorld(zzFAR, false)}
	if gtp5g {
		lp.s.driver = forwarder.ZZNewGtp5g()
	} else {
		lp.s.driver = forwarder.Empty{}
	}
	zzTrack(lp.s)
	lp.s.Start(&lp.wg)
	zzYield()
	lp.feed(zzMarshal(zzAssocReq(1, zzNodeA)), zzAddrA)
	lp.feed(zzMarshal(zzEstReq(2, ie.NewNodeID(zzNodeA, "", ""), ie.NewFSEID(0x70, []byte{127, 0, 0, 1}, nil), ie.NewCreateFAR(ie.NewFARID(9), ie.NewApplyAction(2)))), zzAddrA)
	zzAssert("C07.missing.prefix", zzSentCount() == 2)
	by, err := lp.s.lnode.Sess(1)
	zzAssert("C07.missing.bystander", err == nil)

	what := nondetChoice("message", 3)
	var forest []*zzTree
	switch what {
	case 0:
		forest = zzEstForest()
	case 1:
		// the complete establishment first, so that the modification finds its rules
		i := 0
		lp.feed(zzMarshal(zzEstReq(3, zzBuild(zzEstForest(), &i, [3]int{-1, -1, -1})...)), zzAddrA)
		forest = zzModForest()
	case 2:
		forest = []*zzTree{zzT(ie.NewNodeID(zzNodeB, "", "")), zzT(ie.NewRecoveryTimeStamp(time.Unix(1700000000, 0))), zzT(ie.NewCPFunctionFeatures(0))}
	}
	n := zzCount(forest)
	drop := [3]int{-1, -1, -1}
	last := -1
	for j := 0; j < k; j++ {
		d := last + 1 + nondetChoice("drop", n-last)
		if d >= n {
			break
		}
		drop[j] = d
		last = d
	}
	zzTag("missing message=" + []string{"establishment", "modification", "association-setup"}[what] + " driver=" + drv)
	i := 0
	ies := zzBuild(forest, &i, drop)
	switch what {
	case 0:
		lp.feed(zzMarshal(zzEstReq(4, ies...)), zzAddrA)
	case 1:
		lp.feed(zzMarshal(zzModReq(2, 4, ies...)), zzAddrA)
	case 2:
		lp.feed(zzMarshal(message.NewAssociationSetupRequest(4, ies...)), zzAddrB)
	}
	before := zzSentCount()
	lp.feed(zzMarshal(zzHbReq(77)), zzAddrB)
	zzAssert("C07.missing.heartbeat-answered", zzSentCount() == before+1)
	if zzSentCount() == before+1 {
		h := zzParseHdr(zzSentBytes(before))
		zzAssert("C07.missing.heartbeat-response", h.ok && h.typ == 2 && h.seq == 77)
	}
	got, err := lp.s.lnode.Sess(1)
	zzAssert("C07.missing.bystander-intact", err == nil && got == by && len(by.FARIDs) == 1)
	if gtp5g {
		// a periodic timer registered without a positive period ends the process in the timer server
		zzAssert("C07.missing.no-timer-without-period", forwarder.ZZPerioNonPositive() == 0)
	}
	lp.stop()
	zzCover("C07.missing.done")
}

func ZZ_C07_MissingEmpty() { zzC07Missing(false, 2+zzTier()) }
func ZZ_C07_MissingGtp5g() { zzC07Missing(true, 2+zzTier()) }

// C07 (c) through the event loop: session-level messages (Modification, Deletion, Session Report
// Response to an outstanding report) whose header SEID is an unconstrained 64-bit value - 0, live,
// released, beyond the table, >= 2^63, 2^64-1 are all values the solver can pick. No panic, no
// exit; a Heartbeat is answered afterwards and the bystander is intact unless it was addressed.
// (Which session such a SEID resolves to, and what the answer says, is C04 / C08.)
func zzC07HeaderSEID(gtp5g bool) {
	lp := &zzLoop{zzWorld: zzNewWorld(zzFAR, false)}
	if gtp5g {
		lp.s.driver = forwarder.ZZNewGtp5g()
	} else {
		lp.s.driver = forwarder.Empty{}
	}
	zzTrack(lp.s)
	lp.s.Start(&lp.wg)
	zzYield()
	nid := ie.NewNodeID(zzNodeA, "", "")
	lp.feed(zzMarshal(zzAssocReq(1, zzNodeA)), zzAddrA)
	lp.feed(zzMarshal(zzEstReq(2, nid, ie.NewFSEID(0x70, []byte{127, 0, 0, 1}, nil), ie.NewCreateFAR(ie.NewFARID(9), ie.NewApplyAction(2)))), zzAddrA)
	lp.feed(zzMarshal(zzEstReq(3, nid, ie.NewFSEID(0x71, []byte{127, 0, 0, 1}, nil), ie.NewCreateFAR(ie.NewFARID(8), ie.NewApplyAction(2)))), zzAddrA)
	lp.feed(zzMarshal(zzDelReq(2, 4)), zzAddrA)
	by, err := lp.s.lnode.Sess(1)
	zzAssert("C07.seid.bystander", err == nil)
	x := nondetU64("header-seid")
	from := zzAddr(nondetChoice("from", 2))
	kind := nondetChoice("kind", 3)
	switch kind {
	case 0:
		lp.feed(zzMarshal(zzModReq(x, 5, ie.NewCreateFAR(ie.NewFARID(7), ie.NewApplyAction(2)))), from)
	case 1:
		lp.feed(zzMarshal(zzDelReq(x, 5)), from)
	case 2:
		// a report of the bystander is outstanding; its response carries the symbolic SEID
		before := zzSentCount()
		info := &URRInfo{}
		info.VOLUM = true
		by.URRIDs[1] = info
		lp.s.NotifySessReport(report.SessReport{SEID: 1, Reports: []report.Report{report.USAReport{URRID: 1}}})
		zzYield()
		if zzSentCount() == before+1 {
			h := zzParseHdr(zzSentBytes(before))
			lp.feed(zzMarshal(message.NewSessionReportResponse(0, 0, x, h.seq, 0, ie.NewCause(ie.CauseRequestAccepted))), zzAddrA)
		}
	}
	before := zzSentCount()
	lp.feed(zzMarshal(zzHbReq(77)), zzAddrB)
	zzAssert("C07.seid.heartbeat-answered", zzSentCount() == before+1)
	if zzSentCount() == before+1 {
		h := zzParseHdr(zzSentBytes(before))
		zzAssert("C07.seid.heartbeat-response", h.ok && h.typ == 2 && h.seq == 77)
	}
	addressed := x == 1 || (kind == 2 && x == 0) // SEID 0 in a report response ends the reported session
	if !addressed {
		got, err := lp.s.lnode.Sess(1)
		zzAssert("C07.seid.bystander-intact", err == nil && got == by && len(by.FARIDs) == 1)
	}
	lp.stop()
	zzCover("C07.seid.done")
}

func ZZ_C07_HeaderSEIDEmpty() { zzC07HeaderSEID(false) }
func ZZ_C07_HeaderSEIDGtp5g() { zzC07HeaderSEID(true) }
