package sx

import (
	"fmt"
	"go/token"
	"go/types"
	"math"
	"strings"
	"unicode/utf8"

	"golang.org/x/tools/go/ssa"

	"gosymx/term"
)

// ---- loads and stores ----

func (m *Machine) load(p value) value {
	switch p := p.(type) {
	case *value:
		if p == nil {
			m.rtPanic("invalid memory address or nil pointer dereference")
		}
		return copyVal(*p)
	case *viewPtr:
		return m.viewLoad(p)
	case *symElem:
		return m.symLoad(p)
	case uptr:
		if p.p == nil {
			m.rtPanic("invalid memory address or nil pointer dereference")
		}
		m.unsupported("load through unsafe pointer")
	}
	panic(fmt.Sprintf("load through %T", p))
}

func (m *Machine) store(p value, v value, t types.Type) {
	switch p := p.(type) {
	case *value:
		if p == nil {
			m.rtPanic("invalid memory address or nil pointer dereference")
		}
		storeInto(p, v)
	case *viewPtr:
		m.viewStore(p, v)
	case *symElem:
		i := m.concretize(p.idx, "store index")
		storeInto(&p.cells[i], v)
	case uptr:
		if p.p == nil {
			m.rtPanic("invalid memory address or nil pointer dereference")
		}
		m.unsupported("store through unsafe pointer")
	default:
		panic(fmt.Sprintf("store through %T", p))
	}
}

func (m *Machine) viewLoad(p *viewPtr) value {
	var acc *term.Term
	allConc := true
	var cv uint64
	for i := p.n - 1; i >= 0; i-- {
		c := *cellAt(p.base, i)
		switch c := c.(type) {
		case uint64:
			cv = cv<<8 | (c & 0xff)
		default:
			allConc = false
		}
	}
	if allConc {
		return cv
	}
	for i := p.n - 1; i >= 0; i-- {
		b := m.toTerm(*cellAt(p.base, i), 8)
		if acc == nil {
			acc = b
		} else {
			acc = m.F.Concat(acc, b)
		}
	}
	return intVal(acc)
}

func (m *Machine) viewStore(p *viewPtr, v value) {
	switch x := v.(type) {
	case uint64:
		for i := 0; i < p.n; i++ {
			*cellAt(p.base, i) = (x >> (8 * uint(i))) & 0xff
		}
	case *term.Term:
		for i := 0; i < p.n; i++ {
			*cellAt(p.base, i) = intVal(m.F.Extract(x, 8*i+7, 8*i))
		}
	default:
		m.unsupported("view store of %T", v)
	}
}

// ---- unary ----

func (m *Machine) unop(instr *ssa.UnOp, x value) value {
	switch instr.Op {
	case token.MUL:
		return m.load(x)
	case token.NOT:
		switch x := x.(type) {
		case bool:
			return !x
		case *term.Term:
			return boolVal(m.F.BNot(x))
		}
	case token.SUB:
		switch x := x.(type) {
		case uint64:
			w, _, _ := intInfo(instr.X.Type())
			return (-x) & mask(w)
		case *term.Term:
			return intVal(m.F.Neg(x))
		case float64:
			return -x
		}
	case token.XOR:
		switch x := x.(type) {
		case uint64:
			w, _, _ := intInfo(instr.X.Type())
			return (^x) & mask(w)
		case *term.Term:
			return intVal(m.F.Not(x))
		}
	}
	panic(fmt.Sprintf("unop %s on %T", instr.Op, x))
}

// ---- binary ----

func (m *Machine) binop(op token.Token, t types.Type, x, y value) value {
	// equality on anything
	switch op {
	case token.EQL:
		return m.equals(t, x, y)
	case token.NEQ:
		return m.not(m.equals(t, x, y))
	}
	if isString(t) {
		return m.strBinop(op, x, y)
	}
	if isFloat(t) {
		a, b := x.(float64), y.(float64)
		f32 := t.Underlying().(*types.Basic).Kind() == types.Float32
		r := func(v float64) value {
			if f32 {
				return float64(float32(v))
			}
			return v
		}
		switch op {
		case token.ADD:
			return r(a + b)
		case token.SUB:
			return r(a - b)
		case token.MUL:
			return r(a * b)
		case token.QUO:
			return r(a / b)
		case token.LSS:
			return a < b
		case token.LEQ:
			return a <= b
		case token.GTR:
			return a > b
		case token.GEQ:
			return a >= b
		}
		panic("float binop " + op.String())
	}
	if isBoolT(t) {
		// only ==/!= (handled) ; & | on bools do not exist in SSA
		panic("bool binop " + op.String())
	}
	w, signed, ok := intInfo(t)
	if !ok {
		panic(fmt.Sprintf("binop %s on type %v (%T)", op, t, x))
	}
	xs, xsym := x.(*term.Term)
	ys, ysym := y.(*term.Term)
	if !xsym && !ysym {
		return m.concBinop(op, w, signed, x.(uint64), y.(uint64))
	}
	// shifts: y may have a different width
	if op == token.SHL || op == token.SHR {
		return m.symShift(op, w, signed, x, y)
	}
	if !xsym {
		xs = m.F.Const(w, x.(uint64))
	}
	if !ysym {
		ys = m.F.Const(w, y.(uint64))
	}
	F := m.F
	switch op {
	case token.ADD:
		return intVal(F.Bin(term.OpAdd, xs, ys))
	case token.SUB:
		return intVal(F.Bin(term.OpSub, xs, ys))
	case token.MUL:
		return intVal(F.Bin(term.OpMul, xs, ys))
	case token.QUO, token.REM:
		if m.branch(boolVal(F.Eq(ys, F.Const(w, 0)))) {
			m.rtPanic("integer divide by zero")
		}
		var o term.Op
		switch {
		case op == token.QUO && signed:
			o = term.OpSDiv
		case op == token.QUO:
			o = term.OpUDiv
		case signed:
			o = term.OpSRem
		default:
			o = term.OpURem
		}
		return intVal(F.Bin(o, xs, ys))
	case token.AND:
		return intVal(F.Bin(term.OpAnd, xs, ys))
	case token.OR:
		return intVal(F.Bin(term.OpOr, xs, ys))
	case token.XOR:
		return intVal(F.Bin(term.OpXor, xs, ys))
	case token.AND_NOT:
		return intVal(F.Bin(term.OpAnd, xs, F.Not(ys)))
	case token.LSS:
		if signed {
			return boolVal(F.Cmp(term.OpSlt, xs, ys))
		}
		return boolVal(F.Cmp(term.OpUlt, xs, ys))
	case token.LEQ:
		if signed {
			return boolVal(F.Cmp(term.OpSle, xs, ys))
		}
		return boolVal(F.Cmp(term.OpUle, xs, ys))
	case token.GTR:
		if signed {
			return boolVal(F.Cmp(term.OpSlt, ys, xs))
		}
		return boolVal(F.Cmp(term.OpUlt, ys, xs))
	case token.GEQ:
		if signed {
			return boolVal(F.Cmp(term.OpSle, ys, xs))
		}
		return boolVal(F.Cmp(term.OpUle, ys, xs))
	}
	panic("sym binop " + op.String())
}

func (m *Machine) symShift(op token.Token, w int, signed bool, x, y value) value {
	F := m.F
	xs := m.toTerm(x, w)
	if yc, ok := y.(uint64); ok {
		// shift count is concrete; its own type may be signed but negative counts panic at the Convert
		if yc >= uint64(w) {
			if op == token.SHR && signed {
				return intVal(F.Bin(term.OpAShr, xs, F.Const(w, uint64(w-1))))
			}
			return uint64(0)
		}
		switch {
		case op == token.SHL:
			return intVal(F.Bin(term.OpShl, xs, F.Const(w, yc)))
		case signed:
			return intVal(F.Bin(term.OpAShr, xs, F.Const(w, yc)))
		default:
			return intVal(F.Bin(term.OpLShr, xs, F.Const(w, yc)))
		}
	}
	ys := y.(*term.Term)
	// bring count to width w, saturating
	var cnt *term.Term
	var big *term.Term
	if ys.W > w {
		big = F.BNot(F.Eq(F.Extract(ys, ys.W-1, w), F.Const(ys.W-w, 0)))
		cnt = F.Extract(ys, w-1, 0)
	} else {
		big = F.False()
		cnt = F.Zext(ys, w)
	}
	big = F.BOr(big, F.Cmp(term.OpUle, F.Const(w, uint64(w)), cnt))
	switch {
	case op == token.SHL:
		return intVal(F.Ite(big, F.Const(w, 0), F.Bin(term.OpShl, xs, cnt)))
	case signed:
		return intVal(F.Ite(big, F.Bin(term.OpAShr, xs, F.Const(w, uint64(w-1))), F.Bin(term.OpAShr, xs, cnt)))
	default:
		return intVal(F.Ite(big, F.Const(w, 0), F.Bin(term.OpLShr, xs, cnt)))
	}
}

func (m *Machine) concBinop(op token.Token, w int, signed bool, a, b uint64) value {
	mk := mask(w)
	sa, sb := sext(a, w), sext(b, w)
	switch op {
	case token.ADD:
		return (a + b) & mk
	case token.SUB:
		return (a - b) & mk
	case token.MUL:
		return (a * b) & mk
	case token.QUO:
		if b == 0 {
			m.rtPanic("integer divide by zero")
		}
		if signed {
			if sb == -1 {
				return uint64(-sa) & mk
			}
			return uint64(sa/sb) & mk
		}
		return a / b
	case token.REM:
		if b == 0 {
			m.rtPanic("integer divide by zero")
		}
		if signed {
			if sb == -1 {
				return uint64(0)
			}
			return uint64(sa%sb) & mk
		}
		return a % b
	case token.AND:
		return a & b
	case token.OR:
		return a | b
	case token.XOR:
		return a ^ b
	case token.AND_NOT:
		return a &^ b
	case token.SHL:
		if b >= uint64(w) {
			return uint64(0)
		}
		return (a << b) & mk
	case token.SHR:
		if signed {
			if b >= uint64(w) {
				b = uint64(w - 1)
			}
			return uint64(sa>>b) & mk
		}
		if b >= uint64(w) {
			return uint64(0)
		}
		return a >> b
	case token.LSS:
		if signed {
			return sa < sb
		}
		return a < b
	case token.LEQ:
		if signed {
			return sa <= sb
		}
		return a <= b
	case token.GTR:
		if signed {
			return sa > sb
		}
		return a > b
	case token.GEQ:
		if signed {
			return sa >= sb
		}
		return a >= b
	}
	panic("concBinop " + op.String())
}

func (m *Machine) not(b value) value {
	switch b := b.(type) {
	case bool:
		return !b
	case *term.Term:
		return boolVal(m.F.BNot(b))
	}
	panic("not")
}

func (m *Machine) and(a, b value) value {
	if x, ok := a.(bool); ok {
		if !x {
			return false
		}
		return b
	}
	if y, ok := b.(bool); ok {
		if !y {
			return false
		}
		return a
	}
	return boolVal(m.F.BAnd(a.(*term.Term), b.(*term.Term)))
}

func (m *Machine) or(a, b value) value {
	return m.not(m.and(m.not(a), m.not(b)))
}

// equals implements == for type t; result bool or symbolic Bool.
func (m *Machine) equals(t types.Type, x, y value) value {
	switch x := x.(type) {
	case bool:
		switch y := y.(type) {
		case bool:
			return x == y
		case *term.Term:
			return boolVal(m.F.Eq(m.F.Bool(x), y))
		}
	case uint64:
		switch y := y.(type) {
		case uint64:
			return x == y
		case *term.Term:
			return boolVal(m.F.Eq(m.F.Const(y.W, x), y))
		}
	case *term.Term:
		switch y := y.(type) {
		case *term.Term:
			return boolVal(m.F.Eq(x, y))
		case uint64:
			return boolVal(m.F.Eq(x, m.F.Const(x.W, y)))
		case bool:
			return boolVal(m.F.Eq(x, m.F.Bool(y)))
		}
	case float64:
		return x == y.(float64)
	case string, *sstr, *tstr:
		return m.strEq(x, y)
	case *value:
		switch y := y.(type) {
		case *value:
			return x == y
		case *viewPtr:
			return false
		case uptr:
			return x == nil && y.p == nil
		}
	case *viewPtr:
		if y, ok := y.(*viewPtr); ok {
			return x.base == y.base && x.n == y.n
		}
		return false
	case uptr:
		switch y := y.(type) {
		case uptr:
			if x.p == nil || y.p == nil {
				return x.p == nil && y.p == nil
			}
			return m.equals(nil, x.p, y.p)
		case *value:
			return x.p == nil && y == nil
		}
	case *chanObj:
		return x == y.(*chanObj)
	case *mapObj:
		// only comparison with nil is legal
		return x == nil && y.(*mapObj) == nil
	case []value:
		return x == nil && y.([]value) == nil
	case *ssa.Function:
		if yf, ok := y.(*ssa.Function); ok {
			return x == yf
		}
		return false
	case *closure:
		if yc, ok := y.(*closure); ok {
			return x == yc
		}
		return false
	case structure:
		y := y.(structure)
		st := t.Underlying().(*types.Struct)
		var acc value = true
		for i := range x {
			f := st.Field(i)
			if f.Name() == "_" {
				continue
			}
			acc = m.and(acc, m.equals(f.Type(), x[i], y[i]))
			if b, ok := acc.(bool); ok && !b {
				return false
			}
		}
		return acc
	case array:
		y := y.(array)
		et := t.Underlying().(*types.Array).Elem()
		var acc value = true
		for i := range x {
			acc = m.and(acc, m.equals(et, x[i], y[i]))
			if b, ok := acc.(bool); ok && !b {
				return false
			}
		}
		return acc
	case iface:
		y := y.(iface)
		if x.t == nil || y.t == nil {
			return x.t == nil && y.t == nil
		}
		if !types.Identical(x.t, y.t) {
			return false
		}
		if !types.Comparable(x.t) {
			panic(targetPanic{iface{t: m.P.rtErrType, v: "runtime error: comparing uncomparable type " + x.t.String()}})
		}
		return m.equals(x.t, x.v, y.v)
	case opaque:
		if y, ok := y.(opaque); ok {
			return x.v == y.v
		}
		return false
	}
	panic(fmt.Sprintf("equals: %T vs %T (type %v)", x, y, t))
}

// ---- conversions ----

func (m *Machine) conv(tDst, tSrc types.Type, x value) value {
	ud := tDst.Underlying()
	us := tSrc.Underlying()

	// unsafe.Pointer
	if b, ok := ud.(*types.Basic); ok && b.Kind() == types.UnsafePointer {
		switch x := x.(type) {
		case uptr:
			return x
		case *value:
			if x == nil {
				return uptr{}
			}
			return uptr{p: x, elt: deref(tSrc)}
		case *viewPtr:
			return uptr{p: x, elt: deref(tSrc)}
		case uint64:
			if x == 0 {
				return uptr{}
			}
			m.unsupported("uintptr -> unsafe.Pointer")
		}
		m.unsupported("conversion of %T to unsafe.Pointer", x)
	}
	if b, ok := us.(*types.Basic); ok && b.Kind() == types.UnsafePointer {
		up := x.(uptr)
		switch d := ud.(type) {
		case *types.Pointer:
			if up.p == nil {
				return (*value)(nil)
			}
			if up.elt != nil && types.Identical(up.elt, d.Elem()) {
				return up.p
			}
			// byte cell -> wider unsigned integer view
			if pv, ok := up.p.(*value); ok && up.elt != nil {
				if sw, _, ok1 := intInfo(up.elt); ok1 && sw == 8 {
					if dw, _, ok2 := intInfo(d.Elem()); ok2 {
						if dw == 8 {
							return pv
						}
						return &viewPtr{base: pv, n: dw / 8}
					}
				}
				// pointer to first field/element of the same scalar type
				if dw, _, ok2 := intInfo(d.Elem()); ok2 && dw == 8 {
					// *T -> *byte: keep as opaque unsafe pointer (never dereferenced by the code we run)
					return uptr{p: up.p, elt: up.elt}
				}
			}
			return uptr{p: up.p, elt: up.elt}
		case *types.Basic:
			if up.p == nil {
				return uint64(0)
			}
			m.unsupported("unsafe.Pointer -> uintptr")
		}
	}

	switch ud := ud.(type) {
	case *types.Pointer, *types.Signature, *types.Chan, *types.Map, *types.Struct, *types.Array, *types.Interface:
		return x
	case *types.Slice:
		// string -> []byte / []rune
		if isString(tSrc) {
			if eb, ok := ud.Elem().Underlying().(*types.Basic); ok {
				switch eb.Kind() {
				case types.Uint8:
					return m.strToBytes(x)
				case types.Int32:
					s, ok := x.(string)
					if !ok {
						m.unsupported("[]rune of symbolic string")
					}
					var out []value
					for _, r := range s {
						out = append(out, uint64(uint32(r)))
					}
					return out
				}
			}
		}
		return x
	case *types.Basic:
		switch {
		case ud.Info()&types.IsString != 0:
			switch x := x.(type) {
			case string, *sstr, *tstr:
				return x
			case []value:
				// []byte or []rune -> string
				eb := us.(*types.Slice).Elem().Underlying().(*types.Basic)
				if eb.Kind() == types.Uint8 {
					return m.bytesToStr(x)
				}
				var rs []rune
				for _, c := range x {
					cv, ok := c.(uint64)
					if !ok {
						m.unsupported("string of symbolic []rune")
					}
					rs = append(rs, rune(int32(cv)))
				}
				return string(rs)
			case uint64:
				// integer -> string
				w, signed, _ := intInfo(tSrc)
				v := int64(x)
				if signed {
					v = sext(x, w)
				}
				if v < 0 || v > 0x10ffff {
					return "�"
				}
				return string(rune(v))
			case *term.Term:
				m.unsupported("string(symbolic integer)")
			}
		case ud.Info()&types.IsInteger != 0:
			dw, _, _ := intInfo(ud)
			switch x := x.(type) {
			case uint64:
				sw, ssigned, _ := intInfo(tSrc)
				if ssigned {
					return uint64(sext(x, sw)) & mask(dw)
				}
				return x & mask(dw)
			case *term.Term:
				_, ssigned, _ := intInfo(tSrc)
				switch {
				case dw == x.W:
					return x
				case dw < x.W:
					return intVal(m.F.Extract(x, dw-1, 0))
				case ssigned:
					return intVal(m.F.Sext(x, dw))
				default:
					return intVal(m.F.Zext(x, dw))
				}
			case float64:
				_, dsigned, _ := intInfo(ud)
				if dsigned {
					return uint64(int64(x)) & mask(dw)
				}
				return uint64(x) & mask(dw)
			}
		case ud.Info()&types.IsFloat != 0:
			var f float64
			switch x := x.(type) {
			case float64:
				f = x
			case uint64:
				sw, ssigned, _ := intInfo(tSrc)
				if ssigned {
					f = float64(sext(x, sw))
				} else {
					f = float64(x)
				}
			case *term.Term:
				m.unsupported("float of symbolic integer")
			}
			if ud.Kind() == types.Float32 {
				return float64(float32(f))
			}
			return f
		case ud.Info()&types.IsBoolean != 0:
			return x
		}
	}
	panic(fmt.Sprintf("conv: %v <- %v (%T)", tDst, tSrc, x))
}

// ---- slicing ----

func (m *Machine) slice(instr *ssa.Slice, x, lo, hi, max value) value {
	var length, capacity int
	switch x := x.(type) {
	case string:
		length, capacity = len(x), len(x)
	case *sstr:
		length, capacity = len(x.b), len(x.b)
	case *tstr:
		m.unsupported("slicing a formatted tuple string")
	case []value:
		length, capacity = len(x), cap(x)
	case *value:
		if x == nil {
			m.rtPanic("invalid memory address or nil pointer dereference")
		}
		a := (*x).(array)
		length, capacity = len(a), len(a)
	default:
		panic(fmt.Sprintf("slice of %T", x))
	}
	l, h, mx := 0, length, capacity
	bound := func(v value, t types.Type, what string) int {
		// symbolic bound: first decide whether it can be out of [0,capacity]
		if tv, ok := v.(*term.Term); ok {
			in := m.F.True()
			if tv.W >= 64 || uint64(capacity) <= mask(tv.W) {
				in = m.F.Cmp(term.OpUle, tv, m.F.Const(tv.W, uint64(capacity)))
			}
			if !m.branch(boolVal(in)) {
				m.rtPanic(fmt.Sprintf("slice bounds out of range [symbolic %s] with capacity %d", what, capacity))
			}
		}
		return int(m.concreteInt(v, t, "slice "+what))
	}
	if lo != nil {
		l = bound(lo, instr.Low.Type(), "low")
	}
	if hi != nil {
		h = bound(hi, instr.High.Type(), "high")
	}
	if max != nil {
		mx = bound(max, instr.Max.Type(), "max")
	}
	if _, isStr := instr.X.Type().Underlying().(*types.Basic); isStr {
		if l < 0 || h < l || h > length {
			m.rtPanic(fmt.Sprintf("slice bounds out of range [%d:%d] with length %d", l, h, length))
		}
	} else if l < 0 || h < l || mx < h || mx > capacity {
		m.rtPanic(fmt.Sprintf("slice bounds out of range [%d:%d:%d] with capacity %d", l, h, mx, capacity))
	}
	switch x := x.(type) {
	case string:
		return x[l:h]
	case *sstr:
		return m.mkStr(x.b[l:h])
	case []value:
		if x == nil {
			return []value(nil)
		}
		return x[l:h:mx]
	case *value:
		a := (*x).(array)
		return []value(a)[l:h:mx]
	}
	panic("unreachable")
}

// ---- type assertion ----

func (m *Machine) typeAssert(instr *ssa.TypeAssert, itf iface) value {
	var v value
	ok := false
	if it, isI := instr.AssertedType.Underlying().(*types.Interface); isI {
		if itf.t != nil {
			if meth, _ := types.MissingMethod(itf.t, it, true); meth == nil {
				v = itf
				ok = true
			}
		}
	} else if itf.t != nil && types.Identical(itf.t, instr.AssertedType) {
		v = copyVal(itf.v)
		ok = true
	}
	if instr.CommaOk {
		if !ok {
			v = zero(instr.AssertedType)
		}
		return tuple{v, ok}
	}
	if !ok {
		msg := fmt.Sprintf("interface conversion: interface is %v, not %v", itf.t, instr.AssertedType)
		panic(targetPanic{iface{t: m.P.rtErrType, v: msg}})
	}
	return v
}

// ---- lookup ----

func (m *Machine) lookup(instr *ssa.Lookup, x, idx value) value {
	switch x := x.(type) {
	case *mapObj:
		if kt, isT := idx.(*term.Term); isT && x != nil {
			if r, done := m.mapLookupUniform(instr, x, kt); done {
				return r
			}
		}
		v, ok := m.mapLookup(x, idx)
		if !ok || v == nil {
			v = zero(instr.X.Type().Underlying().(*types.Map).Elem())
		} else {
			v = copyVal(v)
		}
		if instr.CommaOk {
			return tuple{v, ok}
		}
		return v
	case string, *sstr:
		return m.strIndex(x, idx, instr.Index.Type())
	}
	panic(fmt.Sprintf("lookup on %T", x))
}

// mapLookupUniform answers m[k] for a symbolic integer key without forking when every live key is
// concrete and every live value is the same concrete scalar (set-like maps such as go-pfcp's
// grouped-IE table): ok = OR(k == ki), value = ite(ok, v, zero).
func (m *Machine) mapLookupUniform(instr *ssa.Lookup, mo *mapObj, k *term.Term) (value, bool) {
	if mo.nsym != 0 || mo.n < 4 {
		return nil, false
	}
	var common value
	ok := m.F.False()
	for _, e := range mo.entries {
		if e.deleted {
			continue
		}
		kc, isC := e.key.(uint64)
		if !isC {
			return nil, false
		}
		switch v := e.val.(type) {
		case bool, uint64:
			if common == nil {
				common = v
			} else if common != v {
				return nil, false
			}
		default:
			return nil, false
		}
		ok = m.F.BOr(ok, m.F.Eq(k, m.F.Const(k.W, kc)))
	}
	et := instr.X.Type().Underlying().(*types.Map).Elem()
	var v value
	switch c := common.(type) {
	case bool:
		if c {
			v = boolVal(ok)
		} else {
			v = false
		}
	case uint64:
		w, _, isInt := intInfo(et)
		if !isInt {
			return nil, false
		}
		if c == 0 {
			v = uint64(0)
		} else {
			v = m.F.Ite(ok, m.F.Const(w, c), m.F.Const(w, 0))
		}
	}
	if instr.CommaOk {
		return tuple{v, boolVal(ok)}, true
	}
	return v, true
}

// ---- builtins ----

func (m *Machine) callBuiltin(fr *frame, fn *ssa.Builtin, args []value, call *ssa.CallCommon) value {
	switch fn.Name() {
	case "append":
		if len(args) == 1 {
			return args[0]
		}
		dst := args[0].([]value)
		var src []value
		switch s := args[1].(type) {
		case []value:
			src = s
		case string, *sstr:
			src = m.strToBytes(s).([]value)
		default:
			panic(fmt.Sprintf("append of %T", s))
		}
		if len(src) == 0 {
			return dst
		}
		if len(dst)+len(src) <= cap(dst) {
			out := dst[:len(dst)+len(src)]
			for i, e := range src {
				out[len(dst)+i] = copyVal(e)
			}
			return out
		}
		ncap := 2 * cap(dst)
		if ncap < len(dst)+len(src) {
			ncap = len(dst) + len(src)
		}
		out := make([]value, len(dst)+len(src), ncap)
		for i, e := range dst {
			out[i] = e
		}
		for i, e := range src {
			out[len(dst)+i] = copyVal(e)
		}
		// fill spare capacity with zero values of the element type
		if ncap > len(out) {
			var et types.Type
			if call != nil {
				et = call.Args[0].Type().Underlying().(*types.Slice).Elem()
			}
			if et != nil {
				spare := out[len(out):ncap]
				for i := range spare {
					spare[i] = zero(et)
				}
			}
		}
		return out

	case "copy":
		dst := args[0].([]value)
		var src []value
		switch s := args[1].(type) {
		case []value:
			src = s
		case string, *sstr:
			src = m.strToBytes(s).([]value)
		}
		n := len(dst)
		if len(src) < n {
			n = len(src)
		}
		if n > 0 && &dst[0] != &src[0] {
			tmp := make([]value, n)
			for i := 0; i < n; i++ {
				tmp[i] = copyVal(src[i])
			}
			for i := 0; i < n; i++ {
				storeInto(&dst[i], tmp[i])
			}
		}
		return uint64(n)

	case "close":
		m.chanClose(args[0].(*chanObj))
		return nil

	case "delete":
		mo := args[0].(*mapObj)
		if mo != nil {
			m.mapDelete(mo, args[1])
		}
		return nil

	case "print", "println":
		return nil

	case "len":
		switch x := args[0].(type) {
		case string:
			return uint64(len(x))
		case *sstr:
			return uint64(len(x.b))
		case *tstr:
			m.unsupported("len of formatted tuple string")
		case array:
			return uint64(len(x))
		case *value:
			if x == nil {
				// len(*[N]T) of nil pointer is the constant N; SSA gives type
				return uint64(deref(call.Args[0].Type()).Underlying().(*types.Array).Len())
			}
			return uint64(len((*x).(array)))
		case []value:
			return uint64(len(x))
		case *mapObj:
			if x == nil {
				return uint64(0)
			}
			return uint64(x.length())
		case *chanObj:
			if x == nil {
				return uint64(0)
			}
			return uint64(len(x.buf))
		}
		panic(fmt.Sprintf("len of %T", args[0]))

	case "cap":
		switch x := args[0].(type) {
		case array:
			return uint64(len(x))
		case *value:
			return uint64(len((*x).(array)))
		case []value:
			return uint64(cap(x))
		case *chanObj:
			if x == nil {
				return uint64(0)
			}
			return uint64(x.cap)
		}
		panic(fmt.Sprintf("cap of %T", args[0]))

	case "min", "max":
		t := call.Args[0].Type()
		acc := args[0]
		for _, a := range args[1:] {
			op := token.LSS
			if fn.Name() == "max" {
				op = token.GTR
			}
			c := m.binop(op, t, a, acc)
			if m.branch(c) {
				acc = a
			}
		}
		return acc

	case "clear":
		switch x := args[0].(type) {
		case *mapObj:
			if x != nil {
				x.clear()
			}
		case []value:
			if len(x) > 0 {
				et := call.Args[0].Type().Underlying().(*types.Slice).Elem()
				for i := range x {
					x[i] = zero(et)
				}
			}
		}
		return nil

	case "panic":
		panic(targetPanic{args[0]})

	case "recover":
		return m.doRecover(fr)

	case "ssa:wrapnilchk":
		recv := args[0]
		if p, ok := recv.(*value); ok && p == nil {
			m.rtPanic(fmt.Sprintf("value method %v.%v called using nil pointer", args[1], args[2]))
		}
		return recv

	case "real", "imag", "complex":
		m.unsupported("complex numbers")
	}
	if fn.Name() == "Sizeof" || fn.Name() == "Alignof" || fn.Name() == "Offsetof" {
		m.unsupported("unsafe.%s at run time", fn.Name())
	}
	if fn.Name() == "Add" || fn.Name() == "Slice" || fn.Name() == "String" || fn.Name() == "SliceData" || fn.Name() == "StringData" {
		m.unsupported("unsafe.%s", fn.Name())
	}
	panic("unknown builtin " + fn.Name())
}

func (m *Machine) doRecover(fr *frame) value {
	co := m.cur
	if fr != nil && fr.owner != nil && fr.owner.unwinding && co.panicking != nil && !co.panicking.recovered {
		co.panicking.recovered = true
		m.lastRecovered = m.panicString(co.panicking.val) + " @ " + topFunc(co.panicking.where)
		return co.panicking.val
	}
	return iface{}
}

// ---- range ----

type iter interface {
	next(m *Machine) tuple
}

type strIter struct {
	s value
	i int
}

func (it *strIter) next(m *Machine) tuple {
	switch s := it.s.(type) {
	case string:
		if it.i >= len(s) {
			return tuple{false, uint64(0), uint64(0)}
		}
		r, n := utf8.DecodeRuneInString(s[it.i:])
		k := it.i
		it.i += n
		return tuple{true, uint64(k), uint64(uint32(r))}
	case *sstr:
		if it.i >= len(s.b) {
			return tuple{false, uint64(0), uint64(0)}
		}
		c := s.b[it.i]
		k := it.i
		it.i++
		switch c := c.(type) {
		case uint64:
			if c >= 0x80 {
				m.unsupported("range over symbolic string with non-ASCII byte")
			}
			return tuple{true, uint64(k), c}
		case *term.Term:
			// assume ASCII for symbolic bytes (fork: non-ASCII is unsupported)
			if !m.branch(boolVal(m.F.Cmp(term.OpUlt, c, m.F.Const(8, 0x80)))) {
				m.unsupported("range over string: symbolic byte >= 0x80")
			}
			return tuple{true, uint64(k), intVal(m.F.Zext(c, 32))}
		}
	}
	panic("strIter")
}

type mapIter struct {
	mo   *mapObj
	keys []*mentry
	i    int
}

func (it *mapIter) next(m *Machine) tuple {
	for it.i < len(it.keys) {
		e := it.keys[it.i]
		it.i++
		if e.deleted {
			continue
		}
		return tuple{true, copyVal(e.key), copyVal(e.val)}
	}
	return tuple{false, nil, nil}
}

func (m *Machine) rangeIter(x value, t types.Type) iter {
	switch x := x.(type) {
	case *mapObj:
		it := &mapIter{mo: x}
		if x != nil {
			it.keys = append(it.keys, x.entries...)
		}
		return it
	case string, *sstr:
		return &strIter{s: x}
	}
	panic(fmt.Sprintf("range over %T", x))
}

var _ = math.Abs

func topFunc(where string) string {
	top := where
	if i := strings.Index(top, " <- "); i >= 0 {
		top = top[:i]
	}
	if i := strings.Index(top, "@"); i >= 0 {
		top = top[:i]
	}
	return top
}
