//go:build verif

package forwarder

import (
	"time"

	"github.com/khirono/go-nl"
	"github.com/wmnsk/go-pfcp/ie"

	"github.com/free5gc/go-gtp5gnl"
	"github.com/free5gc/go-upf/internal/report"
)

// C10 (data-plane side): kernel report notifications (multicast REPORT messages) and the results of
// query / update / removal are converted to usage reports with URR id, trigger, times and all six
// counters exactly as measured, grouped under the session they belong to.

var zzNS = []uint64{1790812800 * 1e9, 2085978495 * 1e9}

func zzMkRep(name string, seid uint64) zzRep {
	r := zzRep{urr: nondetU32(name + "-urr"), seid: seid}
	for i := range r.vol {
		r.vol[i] = nondetU64(name + "-counter")
	}
	k := nondetChoice(name+"-instants", 2)
	r.start, r.end = zzNS[k], zzNS[k]+7e9
	return r
}

func zzCheckRep(u report.USAReport, r zzRep, wantTrig uint32, tag string) {
	zzAssert("C10.conv.urr."+tag, u.URRID == r.urr)
	zzAssert("C10.conv.trigger."+tag, u.USARTrigger.Flags == wantTrig)
	v := u.VolumMeasure
	zzAssert("C10.conv.tovol."+tag, v.TotalVolume == r.vol[0])
	zzAssert("C10.conv.ulvol."+tag, v.UplinkVolume == r.vol[1])
	zzAssert("C10.conv.dlvol."+tag, v.DownlinkVolume == r.vol[2])
	zzAssert("C10.conv.tonop."+tag, v.TotalPktNum == r.vol[3])
	zzAssert("C10.conv.ulnop."+tag, v.UplinkPktNum == r.vol[4])
	zzAssert("C10.conv.dlnop."+tag, v.DownlinkPktNum == r.vol[5])
	zzAssert("C10.conv.start."+tag, u.StartTime.Equal(time.Unix(0, int64(r.start))))
	zzAssert("C10.conv.end."+tag, u.EndTime.Equal(time.Unix(0, int64(r.end))))
}

// zzSameNameTrig: single reporting-trigger cause -> same-named usage-report trigger (TS 29.244
// 8.2.19 / 8.2.41), as in C19.
func zzSameNameTrig(r uint32) uint32 {
	switch r {
	case 1 << 0:
		return 1 << 0 // PERIO
	case 1 << 1:
		return 1 << 1 // VOLTH
	case 1 << 2:
		return 1 << 2 // TIMTH
	case 1 << 3:
		return 1 << 3 // QUHTI
	case 1 << 4:
		return 1 << 4 // START
	case 1 << 5:
		return 1 << 5 // STOPT
	case 1 << 6:
		return 1 << 6 // DROTH
	case 1 << 7:
		return 1 << 10 // LIUSA
	case 1 << 8:
		return 1 << 8 // VOLQU
	case 1 << 9:
		return 1 << 9 // TIMQU
	case 1 << 10:
		return 1 << 13 // ENVCL
	case 1 << 11:
		return 1 << 14 // MACAR
	case 1 << 12:
		return 1 << 15 // EVETH
	case 1 << 13:
		return 1 << 16 // EVEQU
	case 1 << 14:
		return 1 << 18 // IPMJL
	case 1 << 15:
		return 1 << 19 // QUVTI
	case 1 << 17:
		return 1 << 21 // UPINT
	}
	return 0
}

func zzC10Multicast() {
	g := zzGtp5g(7)
	h := &zzBufHandler{}
	g.bsnl.Handle(h)
	n := 1 + nondetChoice("batch", 2+zzTier())
	seids := [2]uint64{nondetU64("seid-a"), nondetU64("seid-b")}
	zzAssume(seids[0] != seids[1])
	var rs []zzRep
	var which []int
	for i := 0; i < n; i++ {
		w := nondetChoice("session", 2)
		r := zzMkRep("r", seids[w])
		// the kernel reports one cause at a time
		r.trig = 1 << uint(nondetChoice("cause", 18))
		rs = append(rs, r)
		which = append(which, w)
	}
	var al nl.AttrList
	for _, r := range rs {
		al = append(al, zzRepAttr(r))
	}
	body := append([]byte{gtp5gnl.CMD_GET_REPORT, 0, 0, 0}, zzEncAttrs(nl.AttrList{{Type: gtp5gnl.REPORT, Value: al}})...)
	ok := g.bsnl.ServeMsg(&nl.Msg{Header: nl.Header{Type: zzFamilyID}, Body: body})
	zzAssert("C10.mcast.accepted", ok)
	// one notification per session present in the batch, carrying that session's reports in order
	for w := 0; w < 2; w++ {
		var mine []zzRep
		for i, r := range rs {
			if which[i] == w {
				mine = append(mine, r)
			}
		}
		cnt := 0
		for _, sr := range h.got {
			if sr.SEID != seids[w] {
				continue
			}
			cnt++
			zzAssert("C10.mcast.report-count", len(sr.Reports) == len(mine))
			for i := 0; i < len(mine) && i < len(sr.Reports); i++ {
				u, isU := sr.Reports[i].(report.USAReport)
				zzAssert("C10.mcast.type", isU)
				if isU {
					zzCheckRep(u, mine[i], zzSameNameTrig(mine[i].trig), "mcast")
				}
			}
		}
		if len(mine) > 0 {
			zzAssert("C10.mcast.one-notification-per-session", cnt == 1)
		} else {
			zzAssert("C10.mcast.no-notification-for-absent-session", cnt == 0)
		}
	}
	zzAssert("C10.mcast.nothing-else", len(h.got) <= 2)
	zzCover("C10.mcast.done")
}

// query / update / removal results
func zzC10Results() {
	k := zzInstallKernel()
	g := zzGtp5g(7)
	seid := nondetU64("seid")
	r := zzMkRep("r", seid)
	r.trig = nondetU32("kernel-trigger")
	k.reply = func(k *zzKernel, rq zzReq) ([]nl.Msg, error) { return zzReportsMsg([]zzRep{r}), nil }
	how := nondetChoice("how", 3)
	id := []byte{byte(r.urr >> 24), byte(r.urr >> 16), byte(r.urr >> 8), byte(r.urr)}
	var us []report.USAReport
	var err error
	wantTrig := uint32(0)
	switch how {
	case 0:
		us, err = g.QueryURR(seid, r.urr)
	case 1:
		us, err = g.UpdateURR(seid, ie.NewGroupedIE(ie.UpdateURR, ie.New(ie.URRID, id)))
		wantTrig = r.trig
	case 2:
		us, err = g.RemoveURR(seid, ie.NewGroupedIE(ie.RemoveURR, ie.New(ie.URRID, id)))
		wantTrig = r.trig
	}
	zzAssert("C10.result.ok", err == nil && len(us) == 1)
	if err == nil && len(us) == 1 {
		zzCheckRep(us[0], r, wantTrig, "result")
	}
	// the request names the right rule
	attrs := k.reqs[len(k.reqs)-1].b[4:]
	u, ok1 := zzFindAttr(attrs, gtp5gnl.URR_ID, 0)
	s, ok2 := zzFindAttr(attrs, gtp5gnl.URR_SEID, 0)
	zzAssert("C10.result.request-oid", ok1 && ok2 && zzLE32(u) == r.urr && zzLE64(s) == seid)
	zzCover("C10.result.done")
}

// periodic / multi-URR query (queryMultiURR): n (SEID, URR) pairs spread over three sessions, split
// by the driver into netlink requests of at most MaxNetlinkUsageReportNum pairs. The simulated
// kernel answers each request with one report per pair asked; the volume counters of every report
// encode the pair (so that a report cannot stand in for another), and ONE pair, chosen by the
// solver, carries fully symbolic counters. Every pair must come back exactly once, under its own
// SEID, with its own values - also when a session's URRs straddle a request boundary.
func zzC10Multi(n int) {
	k := zzInstallKernel()
	limit := gtp5gnl.MaxNetlinkUsageReportNum()
	pick := nondetChoice("symbolic-pair", n)
	sym := zzMkRep("m", 0)
	mk := func(seid uint64, urr uint32) zzRep {
		r := zzRep{urr: urr, seid: seid, trig: 0, start: zzNS[0], end: zzNS[0] + 7e9}
		if int(urr-1000) == pick {
			r.vol, r.start, r.end = sym.vol, sym.start, sym.end
			return r
		}
		for i := range r.vol {
			r.vol[i] = seid<<40 | uint64(urr)<<8 | uint64(i)
		}
		return r
	}
	k.reply = func(k *zzKernel, rq zzReq) ([]nl.Msg, error) {
		attrs := rq.b[4:]
		cnt := zzCountAttr(attrs, gtp5gnl.URR_MULTI_SEID_URRID)
		var rs []zzRep
		for i := 0; i < cnt; i++ {
			e, _ := zzFindAttr(attrs, gtp5gnl.URR_MULTI_SEID_URRID, i)
			u, ok1 := zzFindAttr(e, gtp5gnl.URR_ID, 0)
			sd, ok2 := zzFindAttr(e, gtp5gnl.URR_SEID, 0)
			if ok1 && ok2 {
				rs = append(rs, mk(zzLE64(sd), zzLE32(u)))
			}
		}
		return zzReportsMsg(rs), nil
	}
	g := zzGtp5g(7)
	in := make(map[uint64][]uint32)
	for i := 0; i < n; i++ {
		seid := uint64(1 + i%3)
		in[seid] = append(in[seid], uint32(1000+i))
	}
	out, err := g.psQueryURR(in)
	zzAssert("C10.multi.no-error", err == nil)
	zzAssert("C10.multi.sessions", len(out) == len(in))
	for seid, ids := range in {
		zzAssert("C10.multi.reports-per-session", len(out[seid]) == len(ids))
		for _, id := range ids {
			c := 0
			for _, u := range out[seid] {
				if u.URRID == id {
					c++
					zzCheckRep(u, mk(seid, id), 0, "multi")
				}
			}
			zzAssert("C10.multi.each-pair-once", c == 1)
		}
	}
	if n > limit {
		zzCover("C10.multi.split")
	}
	zzCover("C10.multi.done")
}

func ZZ_C10_Multi() {
	limit := gtp5gnl.MaxNetlinkUsageReportNum()
	sizes := []int{1, 3, limit, limit + 1, 2*limit + 2}
	zzC10Multi(sizes[nondetChoice("size", len(sizes))])
}

func ZZ_C10_Multicast() { zzC10Multicast() }
func ZZ_C10_Results()   { zzC10Results() }
