package term

import (
	"fmt"
	"math/rand"
	"os"
	"testing"
)

func TestSimplifierAgainstReference(t *testing.T) {
	n := 200000
	if os.Getenv("TERM_SELFTEST_N") != "" {
		fmt.Sscan(os.Getenv("TERM_SELFTEST_N"), &n)
	}
	if testing.Short() {
		n = 20000
	}
	for seed := 0; seed < n; seed++ {
		g := &RandGen{F: NewFactory(), R: rand.New(rand.NewSource(int64(seed))), Env: map[string]uint64{}}
		d := 1 + g.R.Intn(5)
		if seed%2 == 0 {
			w := widths[g.R.Intn(len(widths))]
			tm, ref := g.BV(d, w)
			if got := Eval(tm, g.Env); got != ref {
				t.Fatalf("seed %d: bv term %s under %v: Eval=%#x reference=%#x", seed, tm, g.Env, got, ref)
			}
		} else {
			tm, ref := g.Bool(d)
			got := Eval(tm, g.Env) != 0
			if got != ref {
				t.Fatalf("seed %d: bool term %s under %v: Eval=%v reference=%v", seed, tm, g.Env, got, ref)
			}
		}
	}
}
