//go:build verif

package pfcp

import (
	"net"
	"github.com/wmnsk/go-pfcp/ie"
	"github.com/wmnsk/go-pfcp/message"

	"github.com/free5gc/go-upf/internal/report"
)

// C05: a message for one session or node never disturbs another.
// Bystander session B (SEID 1, concrete rules of every kind, one buffered packet, UR-SEQN 1)
// and acting session A (SEID 2) whose rule ids, CP SEID and node are symbolic and may equal B's.

type zzIso struct {
	s      *PfcpServer
	dp     *zzDP
	nodes  [2]*RemoteNode
	a, b   *Sess
	na, nb int
	cpA    uint64
	cpB    uint64
	idA    [5]uint32 // A's rule id per kind
	sameIP bool      // node 1 talks from node 0's IP address on another port
}

// addr: the transport address of node i. The two nodes are either on different hosts or two
// control-plane functions on one host that differ only in their source port.
func (z *zzIso) addr(i int) net.Addr {
	if i == 1 && z.sameIP {
		return zzAddrA2
	}
	return zzAddr(i)
}

func zzMkSess(n *RemoteNode, lseid, cp uint64) *Sess {
	// the real constructor: the table is empty before, so the ids come out as 1, 2 in call order
	s := n.NewSess(cp)
	zzAssert("C05.setup.seid", s.LocalID == lseid)
	return s
}

func (z *zzIso) addRules(s *Sess, id [5]uint32, seqn uint32) {
	s.URRIDs[id[zzURR]] = &URRInfo{SEQN: seqn, refPdrNum: 1}
	s.URRIDs[id[zzURR]].VOLUM = true
	s.PDRIDs[uint16(id[zzPDR])] = &PDRInfo{RelatedURRIDs: map[uint32]struct{}{id[zzURR]: {}}}
	s.FARIDs[id[zzFAR]] = struct{}{}
	s.QERIDs[id[zzQER]] = struct{}{}
	s.BARIDs[uint8(id[zzBAR])] = struct{}{}
	for k := 0; k < 5; k++ {
		z.dp.rules = append(z.dp.rules, zzRuleRec{s.LocalID, uint8(k), zzIDMask(k, id[k]), zzPresent})
	}
}

func zzMkIso() *zzIso {
	z := &zzIso{}
	z.dp = &zzDP{}
	z.s = zzNewServer(z.dp)
	z.dp.ln = &z.s.lnode
	z.sameIP = nondetBool("nodes-on-one-host")
	for i := 0; i < 2; i++ {
		z.nodes[i] = z.s.NewNode(zzNodeID(i), z.addr(i), z.dp)
		z.s.rnodes[zzNodeID(i)] = z.nodes[i]
	}
	z.nb = 0
	z.na = nondetChoice("a-node", 2)
	z.cpB = 0x1111
	z.cpA = nondetU64("a-cpseid")
	z.b = zzMkSess(z.nodes[z.nb], 1, z.cpB)
	z.a = zzMkSess(z.nodes[z.na], 2, z.cpA)
	z.addRules(z.b, [5]uint32{1, 1, 1, 1, 1}, 1)
	z.b.Push(1, []byte{0xb0, 0xb1})
	// A's ids: symbolic, allowed to coincide with B's
	for k := 0; k < 5; k++ {
		z.idA[k] = zzIDMask(k, nondetU32("a-id"))
	}
	z.addRules(z.a, z.idA, 0)
	z.a.Push(uint16(z.idA[zzPDR]), []byte{0xa0})
	return z
}

// bIntact asserts that B is exactly as constructed.
func (z *zzIso) bIntact(tag string) {
	b := z.b
	got, err := z.s.lnode.Sess(1)
	zzAssert("C05.b.still-resolves."+tag, err == nil && got == b)
	_, own := z.nodes[z.nb].sess[1]
	zzAssert("C05.b.still-owned."+tag, own)
	zzAssert("C05.b.rnode."+tag, b.rnode == z.nodes[z.nb])
	zzAssert("C05.b.cp."+tag, b.RemoteID == z.cpB)
	zzAssert("C05.b.pdrs."+tag, len(b.PDRIDs) == 1)
	if p, ok := b.PDRIDs[1]; ok {
		_, has := p.RelatedURRIDs[1]
		zzAssert("C05.b.pdr-urr."+tag, has && len(p.RelatedURRIDs) == 1)
	} else {
		zzAssert("C05.b.pdr1."+tag, false)
	}
	_, f := b.FARIDs[1]
	zzAssert("C05.b.fars."+tag, f && len(b.FARIDs) == 1)
	_, q := b.QERIDs[1]
	zzAssert("C05.b.qers."+tag, q && len(b.QERIDs) == 1)
	_, ba := b.BARIDs[1]
	zzAssert("C05.b.bars."+tag, ba && len(b.BARIDs) == 1)
	zzAssert("C05.b.urrs."+tag, len(b.URRIDs) == 1)
	if u, ok := b.URRIDs[1]; ok {
		zzAssert("C05.b.urr-seqn."+tag, u.SEQN == 1)
		zzAssert("C05.b.urr-ref."+tag, u.refPdrNum == 1 && !u.removed)
	} else {
		zzAssert("C05.b.urr1."+tag, false)
	}
	zzAssert("C05.b.queue-len."+tag, b.Len(1) == 1 && len(b.q) == 1)
	// data plane: B's five rules present, nothing else under SEID 1
	zzAssert("C05.b.dp-rules."+tag, z.dp.rulesOf(1) == 5)
	for k := 0; k < 5; k++ {
		zzAssert("C05.b.dp-rule-present."+tag, z.dp.find(1, uint8(k), 1) >= 0)
	}
}

func (z *zzIso) callsOnly(from int, seid uint64, tag string) {
	for _, c := range z.dp.calls[from:] {
		zzAssert("C05.calls-tagged-with-own-seid."+tag, c.seid == seid)
	}
}

// one Modification addressed to A with one rule IE of a symbolic id
func zzC05Modify() {
	z := zzMkIso()
	kind := nondetChoice("kind", 5)
	act := nondetChoice("action", 4)
	id := nondetU32("id")
	var one *ie.IE
	switch act {
	case 0:
		one = zzCreateIE(kind, id)
	case 1:
		one = zzUpdateIE(kind, id)
	case 2:
		one = zzRemoveIE(kind, id)
	case 3:
		zzAssume(kind == zzURR)
		one = ie.NewQueryURR(ie.NewURRID(id))
	}
	from := len(z.dp.calls)
	zzDeliver(z.s, zzModReq(2, 7, one), z.addr(z.na), 7)
	z.callsOnly(from, 2, "mod")
	z.bIntact("mod")
	zzCover("C05.mod.done")
}

func zzC05Delete() {
	z := zzMkIso()
	from := len(z.dp.calls)
	zzDeliver(z.s, zzDelReq(2, 7), z.addr(z.na), 7)
	z.callsOnly(from, 2, "del")
	z.bIntact("del")
	_, err := z.s.lnode.Sess(2)
	zzAssert("C05.del.a-gone", err != nil)
	// SEID reuse: a new session gets A's SEID and none of A's state
	n := z.s.rnodes[zzNodeID(z.na)].NewSess(nondetU64("new-cp"))
	zzAssert("C05.reuse.same-seid", n.LocalID == 2)
	zzAssert("C05.reuse.fresh", len(n.PDRIDs) == 0 && len(n.FARIDs) == 0 && len(n.QERIDs) == 0 && len(n.URRIDs) == 0 && len(n.BARIDs) == 0 && len(n.q) == 0)
	_, ok := z.s.PopBufPkt(2, uint16(z.idA[zzPDR]))
	zzAssert("C05.reuse.no-old-packet", !ok)
	// the new session's queue for that PDR id is its own: a packet it buffers comes back alone
	n.Push(uint16(z.idA[zzPDR]), []byte{0xc0, 0xc1, 0xc2})
	zzAssert("C05.reuse.queue-holds-own-packet-only", n.Len(uint16(z.idA[zzPDR])) == 1)
	pkt, ok := z.s.PopBufPkt(2, uint16(z.idA[zzPDR]))
	zzAssert("C05.reuse.pops-own-packet", ok && len(pkt) == 3 && pkt[0] == 0xc0)
	_, ok = z.s.PopBufPkt(2, uint16(z.idA[zzPDR]))
	zzAssert("C05.reuse.nothing-behind-it", !ok)
	z.bIntact("reuse")
	zzCover("C05.del.done")
}

func zzC05Assoc() {
	z := zzMkIso()
	n := nondetChoice("assoc-node", 2)
	from := len(z.dp.calls)
	zzDeliver(z.s, zzAssocReq(7, zzNodeID(n)), z.addr(n), 7)
	// exactly the sessions established under node n are removed
	_, errA := z.s.lnode.Sess(2)
	_, errB := z.s.lnode.Sess(1)
	zzAssert("C05.assoc.a-removed-iff-owned", (errA != nil) == (z.na == n))
	zzAssert("C05.assoc.b-removed-iff-owned", (errB != nil) == (z.nb == n))
	if z.nb != n {
		z.bIntact("assoc")
		z.callsOnly(from, 2, "assoc")
	} else {
		zzAssert("C05.assoc.b-rules-withdrawn", z.dp.rulesOf(1) == 0)
	}
	if z.na != n {
		zzAssert("C05.assoc.a-rules-kept", z.dp.rulesOf(2) == 5)
	}
	zzCover("C05.assoc.done")
}

func zzC05ReportRsp() {
	z := zzMkIso()
	// a Session Report Response with SEID 0 answers a report that named a control-plane SEID; it comes
	// from node 0's address, node 1's address or a third endpoint on node 0's host, and the report it
	// answers named A's or B's control-plane SEID. It is "for" a session only if that session has this
	// control-plane SEID AND belongs to the node at that address.
	var src net.Addr
	switch nondetChoice("response-from", 3) {
	case 0:
		src = z.addr(0)
	case 1:
		src = z.addr(1)
	default:
		src = zzAddrA2
	}
	r := z.cpA
	if nondetBool("report-named-b-cpseid") {
		r = z.cpB
	}
	forA := r == z.cpA && src.String() == z.addr(z.na).String()
	forB := r == z.cpB && src.String() == z.addr(z.nb).String()
	if forB {
		// addressed to B (or to both: then 'the session the report was sent for' is not determined by
		// the message - stated as outside): B is not a bystander of this message
		zzCover("C05.reportrsp.for-b")
		return
	}
	req := message.NewSessionReportRequest(0, 0, r, 0, 0, ie.NewReportType(0, 0, 1, 0))
	rsp := message.NewSessionReportResponse(0, 0, 0, 0, 0, ie.NewCause(ie.CauseSessionContextNotFound))
	from := len(z.dp.calls)
	z.s.handleSessionReportResponse(rsp, src, req)
	_, errA := z.s.lnode.Sess(2)
	if forA {
		zzAssert("C05.reportrsp.a-removed", errA != nil)
		z.callsOnly(from, 2, "reportrsp")
		zzCover("C05.reportrsp.done")
	} else {
		// nobody's: no session has this control-plane SEID at that endpoint
		zzAssert("C05.reportrsp.nobody.a-kept", errA == nil)
		zzAssert("C05.reportrsp.nobody.no-data-plane-call", len(z.dp.calls) == from)
		zzAssert("C05.reportrsp.nobody.a-rules-kept", z.dp.rulesOf(2) == 5)
		zzCover("C05.reportrsp.nobody")
	}
	z.bIntact("reportrsp")
}

func zzC05Establish() {
	z := zzMkIso()
	n := nondetChoice("est-node", 2)
	id := nondetU32("id")
	kind := nondetChoice("kind", 5)
	from := len(z.dp.calls)
	zzDeliver(z.s, zzEstReq(7, ie.NewNodeID(zzNodeID(n), "", ""), ie.NewFSEID(nondetU64("new-cp"), []byte{127, 0, 0, 1}, nil), zzCreateIE(kind, id)), z.addr(n), 7)
	z.callsOnly(from, 3, "est")
	z.bIntact("est")
	zzAssert("C05.est.a-rules-kept", z.dp.rulesOf(2) == 5)
	zzCover("C05.est.done")
}

// kernel notifications addressed to A: buffered packet and usage report
func zzC05Reports() {
	z := zzMkIso()
	which := nondetChoice("report", 2)
	from := len(z.dp.calls)
	if which == 0 {
		sr := report.SessReport{SEID: 2, Reports: []report.Report{report.DLDReport{PDRID: nondetU16("pdr"), Action: nondetU16("action"), BufPkt: []byte{0xaa}}}}
		z.s.ServeReport(&sr)
	} else {
		sr := report.SessReport{SEID: 2, Reports: []report.Report{report.USAReport{URRID: nondetU32("urr")}}}
		z.s.ServeReport(&sr)
	}
	z.callsOnly(from, 2, "reports")
	z.bIntact("reports")
	// anything sent goes to A's node and carries A's CP SEID
	for i := 0; i < zzSentCount(); i++ {
		h := zzParseHdr(zzSentBytes(i))
		zzAssert("C05.reports.to-own-smf", h.ok && h.typ == 56 && h.seid == z.cpA)
	}
	zzCover("C05.reports.done")
}

// takeover: a Modification for A carrying a Node ID moves A (and only A) to the new node id;
// a later re-association removes exactly the sessions established or taken over under that id.
func zzC05Takeover() {
	z := zzMkIso()
	const newID = "127.0.0.9"
	target := nondetChoice("takeover-to", 3) // 0: an unused node id, 1: the other associated node's id, 2: the id the session's node already has
	nid := newID
	switch target {
	case 1:
		nid = zzNodeID(1 - z.na)
	case 2:
		nid = zzNodeID(z.na)
	}
	zzDeliver(z.s, zzModReq(2, 7, ie.NewNodeID(nid, "", "")), z.addr(z.na), 7)
	// an SMF may name itself in every Modification: the same Node ID once more changes nothing
	repeated := nondetBool("takeover-request-repeated")
	if repeated {
		zzDeliver(z.s, zzModReq(2, 6, ie.NewNodeID(nid, "", "")), z.addr(z.na), 6)
	}
	z.bIntact("takeover")
	// now re-associate one of the three ids
	which := nondetChoice("reassoc", 3)
	rid := []string{zzNodeA, zzNodeB, newID}[which]
	zzDeliver(z.s, zzAssocReq(8, rid), zzAddrA, 8)
	_, errA := z.s.lnode.Sess(2)
	_, errB := z.s.lnode.Sess(1)
	tag := ".b-other-node"
	if z.na == z.nb {
		tag = ".b-same-node"
	}
	switch target {
	case 1:
		tag += ".to-associated-id"
	case 2:
		tag += ".to-own-id"
	default:
		tag += ".to-new-id"
	}
	if repeated {
		tag += ".repeated"
	}
	switch {
	case rid == nid:
		tag += ".reassoc-new-id"
	case rid == zzNodeID(z.na):
		tag += ".reassoc-old-id"
	default:
		tag += ".reassoc-third-id"
	}
	zzAssert("C05.takeover.a-removed-iff-its-id"+tag, (errA != nil) == (rid == nid))
	zzAssert("C05.takeover.b-removed-iff-its-id"+tag, (errB != nil) == (rid == zzNodeID(z.nb)))
	zzCover("C05.takeover.done")
}

// SEID reuse across nodes: A is deleted by a Deletion Request, its SEID is re-issued to a session of
// the OTHER node, then A's former node re-associates: that must remove nothing of the other node.
func zzC05DeleteReuseReassoc() {
	z := zzMkIso()
	// A ends either by its peer's Deletion Request or because its peer answered a report of it with
	// SEID 0 ("no such session here")
	if nondetBool("ended-by-seid0-report-response") {
		if z.na == z.nb {
			zzAssume(z.cpA != z.cpB)
		}
		req := message.NewSessionReportRequest(0, 0, z.cpA, 0, 0, ie.NewReportType(0, 0, 1, 0))
		rsp := message.NewSessionReportResponse(0, 0, 0, 0, 0, ie.NewCause(ie.CauseSessionContextNotFound))
		z.s.handleSessionReportResponse(rsp, z.addr(z.na), req)
		zzCover("C05.reuse2.ended-by-seid0")
	} else {
		zzDeliver(z.s, zzDelReq(2, 7), z.addr(z.na), 7)
	}
	_, err := z.s.lnode.Sess(2)
	zzAssert("C05.reuse2.a-gone", err != nil)
	other := 1 - z.na
	n := z.s.rnodes[zzNodeID(other)].NewSess(nondetU64("new-cp"))
	zzAssert("C05.reuse2.same-seid", n.LocalID == 2)
	n.FARIDs[5] = struct{}{}
	z.dp.rules = append(z.dp.rules, zzRuleRec{2, zzFAR, 5, zzPresent})
	from := len(z.dp.calls)
	zzDeliver(z.s, zzAssocReq(8, zzNodeID(z.na)), z.addr(z.na), 8)
	got, err := z.s.lnode.Sess(2)
	zzAssert("C05.reuse2.new-owner-session-survives-old-owners-reassociation", err == nil && got == n)
	zzAssert("C05.reuse2.new-owner-rules-kept", z.dp.rulesOf(2) == 1)
	for _, c := range z.dp.calls[from:] {
		zzAssert("C05.reuse2.no-call-under-reused-seid", c.seid != 2)
	}
	if z.nb != z.na {
		z.bIntact("reuse2")
	}
	zzCover("C05.reuse2.done")
}

func ZZ_C05_DeleteReuseReassoc() { zzC05DeleteReuseReassoc() }
func ZZ_C05_Modify()             { zzC05Modify() }
func ZZ_C05_Delete()             { zzC05Delete() }
func ZZ_C05_Assoc()              { zzC05Assoc() }
func ZZ_C05_ReportRsp()          { zzC05ReportRsp() }
func ZZ_C05_Establish()          { zzC05Establish() }
func ZZ_C05_Reports()            { zzC05Reports() }
func ZZ_C05_Takeover()           { zzC05Takeover() }
