package nl

import (
	"syscall"
)

type Client struct {
	conn Conner
	mux  *Mux
}

func NewClient(conn Conner, mux *Mux) *Client {
	c := new(Client)
	c.conn = conn
	c.mux = mux
	return c
}

// DoHook, when set, replaces the netlink round trip (verification stub point:
// everything above it - attribute encoding, request assembly, reply decoding - is real).
var DoHook func(req *Request) ([]Msg, error)

func (c *Client) Do(req *Request) ([]Msg, error) {
	if DoHook != nil {
		return DoHook(req)
	}
	seq := c.conn.TakeSeq()
	req.Commit(seq)
	_, err := c.conn.Writev(req.Iovs)
	if err != nil {
		return nil, err
	}

	ch := make(chan *Msg, 32)

	c.mux.PushHandlerFunc(c.conn, c.Handler(req, ch))
	defer c.mux.PopHandler(c.conn)

	var rsps []Msg
	for msg := range ch {
		switch msg.Header.Type {
		case syscall.NLMSG_DONE:
			err, _, _ := DecodeMsgError(msg.Body)
			return rsps, err
		case syscall.NLMSG_ERROR:
			err, _, _ := DecodeMsgError(msg.Body)
			return rsps, err
		default:
			rsps = append(rsps, *msg)
		}
	}

	return rsps, nil
}

func (c *Client) Handler(req *Request, ch chan *Msg) HandlerFunc {
	var done bool
	return func(msg *Msg) bool {
		if done {
			return false
		}
		t := msg.Header.Type
		switch {
		case t == syscall.NLMSG_DONE:
		case t == syscall.NLMSG_ERROR:
		case req.ContainsReplyType(int(t)):
		default:
			return false
		}
		if msg.Header.Seq != req.Header.Seq {
			return false
		}
		if msg.Header.Pid == 0 {
			return false
		}
		ch <- msg
		switch t {
		case syscall.NLMSG_DONE:
			done = true
			close(ch)
		case syscall.NLMSG_ERROR:
			done = true
			close(ch)
		default:
			if !req.NeedAck() {
				done = true
				close(ch)
			}
		}
		return true
	}
}
