//go:build verif

package pfcp

import (
	"syscall"
	"io"
	"net"
	"runtime"
	"time"

	"github.com/free5gc/go-upf/internal/logger"
)

// Environment, native side: loop-back sinks stand in for the two SMFs
// (127.0.0.1:8805 and 127.0.0.2:8805); the UPF socket is 127.0.0.3:<any>.

type zzDatagram struct {
	b  []byte
	to net.Addr
}

var (
	zzSinks []*net.UDPConn
	zzUPF   *net.UDPConn
	zzLog   []zzDatagram
)

func init() {
	logger.Log.SetOutput(io.Discard)
	// logrus Fatal*: do not kill the test process; end the calling goroutine and remember it
	logger.Log.ExitFunc = func(int) {
		zzExitFlag = true
		runtime.Goexit()
	}
	zzResetHook = zzEnvReset
}

var zzTracked []*PfcpServer

func zzTrack(s *PfcpServer) { zzTracked = append(zzTracked, s) }

func zzEnvReset() {
	for _, s := range zzTracked {
		s.Stop()
	}
	if len(zzTracked) > 0 {
		time.Sleep(20 * time.Millisecond)
	}
	zzTracked = nil
	if zzSinks == nil {
		for _, a := range []string{"127.0.0.1:8805", "127.0.0.2:8805", "127.0.0.1:8806"} {
			ua, _ := net.ResolveUDPAddr("udp4", a)
			c, err := net.ListenUDP("udp4", ua)
			if err != nil {
				panic("zz native env: " + err.Error())
			}
			zzSinks = append(zzSinks, c)
		}
		ua, _ := net.ResolveUDPAddr("udp4", "127.0.0.3:0")
		c, err := net.ListenUDP("udp4", ua)
		if err != nil {
			panic("zz native env: " + err.Error())
		}
		zzUPF = c
	}
	zzDrain()
	zzLog = nil
}

func zzDrain() {
	// non-blocking reads: what the loop-back sockets hold NOW. (A read with a short deadline is not the
	// same thing: Go checks the deadline before it looks at the socket, so on a loaded machine a
	// 2 ms deadline can expire before the read starts and hide a datagram that is already there.)
	buf := make([]byte, 65536)
	for _, c := range zzSinks {
		rc, err := c.SyscallConn()
		if err != nil {
			continue
		}
		for {
			n := -1
			rc.Read(func(fd uintptr) bool {
				k, _, e := syscall.Recvfrom(int(fd), buf, syscall.MSG_DONTWAIT)
				if e == nil {
					n = k
				}
				return true // never park: EAGAIN means "nothing there"
			})
			if n < 0 {
				break
			}
			b := make([]byte, n)
			copy(b, buf[:n])
			zzLog = append(zzLog, zzDatagram{b, c.LocalAddr()})
		}
	}
}

func zzConn() *net.UDPConn { return zzUPF }

func zzSentCount() int          { zzDrain(); return len(zzLog) }
func zzSentBytes(i int) []byte  { zzDrain(); return zzLog[i].b }
func zzSentAddr(i int) net.Addr { zzDrain(); return zzLog[i].to }
func zzYield() {
	// let the event loop(s) run until their queues are drained, then a little longer
	runtime.Gosched()
	for i := 0; i < 400; i++ {
		time.Sleep(time.Millisecond)
		idle := true
		for _, s := range zzTracked {
			if len(s.rcvCh) != 0 || len(s.srCh) != 0 || len(s.trToCh) != 0 {
				idle = false
			}
		}
		if idle && i >= 4 {
			break
		}
	}
	time.Sleep(6 * time.Millisecond)
}
func zzExpectExit()        {}
func zzTimersActive() int  { return -1 }
func zzTimersCreated() int { return -1 }
func zzGoroutines() int    { return -1 }

// zzFireTimer: time passes and the timer expires - natively by re-arming it with a zero duration
// (its AfterFunc callback then runs on the runtime's timer goroutine) and waiting a moment.
// false for a nil timer or one that is no longer armed.
func zzFireTimer(t *time.Timer) bool {
	if t == nil {
		return false
	}
	if !t.Stop() {
		return false // already fired or stopped
	}
	t.Reset(0)
	time.Sleep(3 * time.Millisecond)
	return true
}
