//go:build verif

package pfcp

import (
	"github.com/wmnsk/go-pfcp/ie"

	"github.com/free5gc/go-upf/internal/forwarder"
)

// C07: no datagram sequence can take the control plane down.
// (b) IE payload sweep: for every leaf IE go-upf or the gtp5g driver decodes, a well-formed
// request whose one IE of that type carries a symbolic payload of every length 0..nominal+2,
// through the real event loop with both drivers; afterwards a Heartbeat must be answered and a
// bystander session must be intact.

type zzLeaf struct {
	name    string
	typ     uint16
	nominal int
	group   int // 0 top-level, 1 PDR, 2 PDI, 3 FAR, 4 forwarding parameters, 5 QER, 6 URR, 7 BAR
}

var zzLeaves = []zzLeaf{
	{"NodeID", ie.NodeID, 5, 0}, {"FSEID", ie.FSEID, 13, 0},
	{"PDRID", ie.PDRID, 2, 1}, {"Precedence", ie.Precedence, 4, 1}, {"OuterHeaderRemoval", ie.OuterHeaderRemoval, 1, 1},
	{"FARID", ie.FARID, 4, 1}, {"QERID", ie.QERID, 4, 1}, {"URRID", ie.URRID, 4, 1},
	{"SourceInterface", ie.SourceInterface, 1, 2}, {"FTEID", ie.FTEID, 9, 2}, {"NetworkInstance", ie.NetworkInstance, 4, 2},
	{"UEIPAddress", ie.UEIPAddress, 5, 2}, {"SDFFilter", ie.SDFFilter, 8, 2}, {"ApplicationID", ie.ApplicationID, 3, 2},
	{"FARID", ie.FARID, 4, 3}, {"ApplyAction", ie.ApplyAction, 2, 3}, {"BARID", ie.BARID, 1, 3},
	{"DestinationInterface", ie.DestinationInterface, 1, 4}, {"OuterHeaderCreation", ie.OuterHeaderCreation, 10, 4},
	{"ForwardingPolicy", ie.ForwardingPolicy, 4, 4}, {"PFCPSMReqFlags", ie.PFCPSMReqFlags, 1, 4},
	{"QERID", ie.QERID, 4, 5}, {"QERCorrelationID", ie.QERCorrelationID, 4, 5}, {"GateStatus", ie.GateStatus, 1, 5},
	{"MBR", ie.MBR, 10, 5}, {"GBR", ie.GBR, 10, 5}, {"QFI", ie.QFI, 1, 5}, {"RQI", ie.RQI, 1, 5}, {"PagingPolicyIndicator", ie.PagingPolicyIndicator, 1, 5},
	{"URRID", ie.URRID, 4, 6}, {"MeasurementMethod", ie.MeasurementMethod, 1, 6}, {"ReportingTriggers", ie.ReportingTriggers, 3, 6},
	{"MeasurementPeriod", ie.MeasurementPeriod, 4, 6}, {"MeasurementInformation", ie.MeasurementInformation, 1, 6},
	{"VolumeThreshold", ie.VolumeThreshold, 9, 6}, {"VolumeQuota", ie.VolumeQuota, 9, 6},
	{"BARID", ie.BARID, 1, 7}, {"DownlinkDataNotificationDelay", ie.DownlinkDataNotificationDelay, 1, 7},
	{"SuggestedBufferingPacketsCount", ie.SuggestedBufferingPacketsCount, 1, 7},
}

var zzGroupName = []string{"top", "PDR", "PDI", "FAR", "FwdParams", "QER", "URR", "BAR"}

// zzWithLeaf builds the request IEs for the leaf's group: a well-formed group whose IE of the
// leaf's type is replaced by (or, if it has none, extended with) the IE under test.
func zzWithLeaf(l zzLeaf, x *ie.IE, update bool) []*ie.IE {
	put := func(kids []*ie.IE) []*ie.IE {
		for i, k := range kids {
			if k.Type == l.typ {
				kids[i] = x
				return kids
			}
		}
		return append(kids, x)
	}
	pdi := []*ie.IE{ie.NewSourceInterface(ie.SrcInterfaceCore), ie.NewUEIPAddress(2, "10.60.0.1", "", 0, 0)}
	pdr := []*ie.IE{ie.NewPDRID(1), ie.NewPrecedence(1), ie.NewFARID(1)}
	fp := []*ie.IE{ie.NewDestinationInterface(ie.DstInterfaceAccess), ie.NewOuterHeaderCreation(0x0100, 1, "10.0.0.1", "", 0, 0, 0)}
	far := []*ie.IE{ie.NewFARID(1), ie.NewApplyAction(2)}
	qer := []*ie.IE{ie.NewQERID(1), ie.NewGateStatus(0, 0)}
	urr := []*ie.IE{ie.NewURRID(1), ie.NewMeasurementMethod(0, 1, 0), ie.NewReportingTriggers(0x02, 0)}
	bar := []*ie.IE{ie.NewBARID(1)}
	switch l.group {
	case 1:
		pdr = put(pdr)
	case 2:
		pdi = put(pdi)
	case 3:
		far = put(far)
	case 4:
		fp = put(fp)
	case 5:
		qer = put(qer)
	case 6:
		urr = put(urr)
	case 7:
		bar = put(bar)
	}
	pdr = append(pdr, ie.NewPDI(pdi...))
	if update {
		far = append(far, ie.NewUpdateForwardingParameters(fp...))
		return []*ie.IE{ie.NewUpdateFAR(far...), ie.NewUpdateQER(qer...), ie.NewUpdateURR(urr...),
			ie.NewUpdateBARWithinSessionModificationRequest(bar...), ie.NewUpdatePDR(pdr...)}
	}
	far = append(far, ie.NewForwardingParameters(fp...))
	return []*ie.IE{ie.NewCreateFAR(far...), ie.NewCreateQER(qer...), ie.NewCreateURR(urr...), ie.NewCreateBAR(bar...), ie.NewCreatePDR(pdr...)}
}

func zzC07Sweep(gtp5g bool) {
	l := zzLeaves[nondetChoice("leaf", len(zzLeaves))]
	n := nondetChoice("len", l.nominal+3)
	drv := "empty"
	if gtp5g {
		drv = "gtp5g"
	}
	zzTag("IE=" + zzGroupName[l.group] + "/" + l.name + " driver=" + drv)
	payload := nondetBytes("payload", n)
	if l.typ == ie.SDFFilter {
		// bound (stated in the evidence): the flow-description region of an SDF filter is ASCII.
		// Flags, spare and the FD length field (octets 0..3) stay unconstrained - the length is
		// what go-pfcp slices with. Non-ASCII text sends strings.Fields down its unicode path,
		// which the engine does not execute symbolically.
		for i := 4; i < n; i++ {
			zzAssume(payload[i] < 0x80)
		}
		if zzTier() == 0 && n >= 4 {
			// quick tier: the FD length field is either within the payload or far beyond any buffer
			// (>= 256, the crash branch); lengths in between (reading into the IEs that follow in
			// the same datagram) are explored value by value in the thorough tier only
			fd := uint16(payload[2])<<8 | uint16(payload[3])
			if fd > uint16(n) {
				zzAssume(fd >= 0x100)
			}
		}
	}
	x := ie.New(l.typ, payload)
	lp := &zzLoop{zzWorld: zzNewWorld(zzFAR, false)}
	if gtp5g {
		lp.s.driver = forwarder.ZZNewGtp5g()
	} else {
		lp.s.driver = forwarder.Empty{}
	}
	zzTrack(lp.s)
	lp.s.Start(&lp.wg)
	zzYield()
	// prefix: association and a bystander session with one FAR
	lp.feed(zzMarshal(zzAssocReq(1, zzNodeA)), zzAddrA)
	lp.feed(zzMarshal(zzEstReq(2, ie.NewNodeID(zzNodeA, "", ""), ie.NewFSEID(0x70, []byte{127, 0, 0, 1}, nil), ie.NewCreateFAR(ie.NewFARID(9), ie.NewApplyAction(2)))), zzAddrA)
	zzAssert("C07.sweep.prefix", zzSentCount() == 2)
	by, err := lp.s.lnode.Sess(1)
	zzAssert("C07.sweep.bystander", err == nil)
	// the request under test: establishment (create groups) then modification (update groups)
	if l.group == 0 {
		ies := []*ie.IE{ie.NewNodeID(zzNodeA, "", ""), ie.NewFSEID(0x71, []byte{127, 0, 0, 1}, nil)}
		for i, k := range ies {
			if k.Type == l.typ {
				ies[i] = x
			}
		}
		lp.feed(zzMarshal(zzEstReq(3, ies...)), zzAddrA)
		if l.typ == ie.NodeID {
			lp.feed(zzMarshal(zzAssocReq(4, zzNodeB)), zzAddrB)
			lp.feed(zzMarshal(zzModReq(1, 5, x)), zzAddrA)
		}
	} else {
		ies := append([]*ie.IE{ie.NewNodeID(zzNodeA, "", ""), ie.NewFSEID(0x71, []byte{127, 0, 0, 1}, nil)}, zzWithLeaf(l, x, false)...)
		lp.feed(zzMarshal(zzEstReq(3, ies...)), zzAddrA)
		lp.feed(zzMarshal(zzModReq(2, 4, zzWithLeaf(l, x, true)...)), zzAddrA)
	}
	// still serving: a Heartbeat is answered, the bystander is intact
	before := zzSentCount()
	lp.feed(zzMarshal(zzHbReq(77)), zzAddrB)
	zzAssert("C07.sweep.heartbeat-answered", zzSentCount() == before+1)
	if zzSentCount() == before+1 {
		h := zzParseHdr(zzSentBytes(before))
		zzAssert("C07.sweep.heartbeat-response", h.ok && h.typ == 2 && h.seq == 77)
	}
	got, err := lp.s.lnode.Sess(1)
	if l.typ != ie.NodeID {
		zzAssert("C07.sweep.bystander-intact", err == nil && got == by && len(by.FARIDs) == 1)
	}
	lp.stop()
	zzCover("C07.sweep.done")
}

func ZZ_C07_SweepEmpty() { zzC07Sweep(false) }
func ZZ_C07_SweepGtp5g() { zzC07Sweep(true) }
