//go:build verif

package factory

import (
	"io"
	"os"
	"path/filepath"

	"github.com/free5gc/go-upf/internal/logger"
)

// native side of ZZ_C20_Document: the document becomes a real file for the real ReadConfig.

func zzPutDoc(d *zzDoc) string {
	logger.Log.SetOutput(io.Discard)
	dir, err := os.MkdirTemp("", "zzc20")
	if err != nil {
		panic(err)
	}
	p := filepath.Join(dir, "upfcfg.yaml")
	if err := os.WriteFile(p, []byte(d.render()), 0o600); err != nil {
		panic(err)
	}
	return p
}

func zzDoneDoc(path string) { os.RemoveAll(filepath.Dir(path)) }
