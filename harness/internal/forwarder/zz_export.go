//go:build verif

package forwarder

import (
	"github.com/khirono/go-nl"

	"github.com/free5gc/go-gtp5gnl"
)

// ZZNewGtp5g gives harnesses of other packages a gtp5g driver on a simulated kernel that
// accepts every rule operation (GET_FAR answers "no such FAR", so no buffer release happens).
func ZZNewGtp5g() *Gtp5g {
	k := zzInstallKernel()
	k.reply = func(k *zzKernel, r zzReq) ([]nl.Msg, error) {
		if len(r.b) > 0 {
			switch r.b[0] {
			case gtp5gnl.CMD_GET_FAR, gtp5gnl.CMD_GET_PDR, gtp5gnl.CMD_GET_QER:
				return nil, errZZNoEnt
			case gtp5gnl.CMD_DEL_URR, gtp5gnl.CMD_GET_REPORT:
				return zzReportsMsg([]zzRep{{urr: 1}}), nil
			}
		}
		return nil, nil
	}
	return zzGtp5g(7)
}

// ZZRequests is the number of netlink requests the simulated kernel has seen.
func ZZRequests() int {
	if zzK == nil {
		return 0
	}
	return len(zzK.reqs)
}
