#!/usr/bin/env python3
"""Prints the section 0.1 table of DESIGN.md from evidence/*.json (quick tier numbers of the last run)."""
import json, glob, os
V = os.path.dirname(os.path.dirname(os.path.abspath(__file__)))
kf = json.load(open(os.path.join(V, "known_findings.json")))["findings"]
for f in sorted(glob.glob(os.path.join(V, "evidence", "C*.json"))):
    e = json.load(open(f)); c = e["coverage"]; pid = e["property_id"]
    op = sum(1 for k in kf if k["property"] == pid and k["status"] == "open")
    fx = [k["commit"] for k in kf if k["property"] == pid and k["status"] == "fixed"]
    res = "holds" + (f" (after fix {', '.join(fx)})" if fx else "") + (f" except {op} open known finding key(s)" if op else "")
    print(f"| {pid} | {c['paths']:,} / {c['obligations']:,} / {c['solver']['queries']:,} / {c['traces_validated_against_impl']} / {e['wall_s']:.0f} s ({e['tier']}) | {res} |".replace(",", " "))
